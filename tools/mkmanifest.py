#!/usr/bin/env python3
"""Regenerate MANIFEST.json from the table below (keeps it valid at all times)."""
import json
import os

V = os.path.dirname(os.path.dirname(os.path.abspath(__file__)))
props = [json.loads(l) for l in open(os.path.join(V, "properties.jsonl"))]

TB = ("Trusted: Coq 8.16.1 kernel (no axioms: every property theorem prints 'Closed under the global context'; vm_compute only in "
      "Example/witness lemmas), extraction to OCaml (ExtrOcamlBasic) cross-checked by vm_compute samples, tools/rs2v.py, the Rust "
      "harnesses and the Python comparator, rustc/cargo, pest 2.7.14 as oracle. Modelled, not verified: main/src and generator/src "
      "(hand-written Gallina model tied by differential runs on every check).")

CLAIMS = {
    "C16": ('Theorems C16_getters (for every grammar, rule with accessors, input: the prefix parse returns a rule node with content and the '
            'emitted accessor r.x() yields, flattened, exactly the x nodes stored directly in that content, in mention order), '
            'C16_getters_nested (every rule node anywhere in a tree), C16_getters_mention (built-in identifiers), C16_type (emitted type = '
            'declarative reading of where x is mentioned: Option / Vec / tuple), C16_getter_exists_iff, C16_value_typed (no Option<Option>, '
            'value has exactly the emitted type), C16_tparse_has_shape, C16_flattenable, C16_one_getter_per_name, C16_example_types. Ties: V1g '
            '(type and path of every accessor the REAL generator emits, extracted with syn from its token stream == Model/Getter.v, seeded '
            'getter-biased grammars, both option sets, plus tagged grammars through the grammar-extras build with tag references off; the two accessor '
            'builders compared code against code on rules whose optimized and un-optimized AST coincide); corpus compiled with #[emit_rule_reference]: every accessor called on every parsed input, flattened by a '
            'type-directed trait, compared with the model accessor (T2) and the specification direct_refs / mention_refs on the model tree '
            '(T3).',
            'DESIGN.md §4 C16, §10'),
    "C01": ('Theorem C01_typed_is_peg / C01_accepts_iff: for every grammar whose WHITESPACE/COMMENT cannot tell the inherited atomicity (ws_ok, '
            'the complement of known finding F2), every callable rule, input and pair of fuels on which both runs end, the REAL parse path '
            "(Sem.v, pest::Stack bug for bug) on the generator model's output succeeds exactly when the PEG spec of pest (Model/PegSpec.v) "
            'does, at the same offset with the same stack, and fails when it fails (forward simulation C01_simulation for every '
            'expression/context + fuel monotonicity + the C05 refinement); C01_total: for grammars accepted by the verified certificate checker wf_cert both runs end and agree, with no premise about either run (C11 + backward simulation C01_spec_ends_if_typed_ends); C01_example / C01_total_example (premises satisfiable), witness C01_refuted_ws. Ties: '
            'spec validated against the real pest parser on every explored case (verdict, offset, Pairs); generator model tied by V1 (real '
            'generator output extracted from the token stream == translate, seeded random grammars); derive corpus compiled through both '
            'derives: typed == faithful model == spec. Known finding F2.',
            'DESIGN.md §4 C01, §10'),
    "C02": ("Token theorems C02_lookahead_no_tokens / C02_silent_transparent / C02_atomic_pruned / C02_rule_token / "
            "C02_skipped_before_matched, witness C02_refuted_ws; tie: typed pair tree == model tokens == pruned spec tokens (spec tokens == "
            "real pest Pairs on every case). Known finding F8 (class WsNonAtomic).", "DESIGN.md §4 C02"),
    "C07": ("Theorems C07_skip_token (every Seq/Rep of a translated body carries the defining rule's skip), C07_rule_reference, "
            "C07_inheritance, C07_skip_rules_atomic, C07_no_skip_at_start / _when_off / _at_rule_edges, C07_rep_gives_back, witness "
            "C07_refuted_ws, C07_never_failing_entry_points (NeverFailedTypedNode::parse_with / check_with of MIN = 0 repetitions place their skips as the fallible entry points do); tie: V1 + kind-nesting grammar family against the PEG spec / pest; harness/unitskip nf mode vs the counting specification. Known finding F2.", "DESIGN.md §4 C07"),
    "C17": ("Theorems C17_first_match (+_impl), C17_accessor_unique / _exactly_one, C17_chain, C17_match_choices (all arities), C17_seq, "
            "C17_rep, C17_leaf_text; tie: arities 2..16 (library and macro-generated) x alternative index x overlapping inputs, accessors, "
            "helper chain, match_choices!, sequence/repetition accessors, leaf fields, vs model and an independent oracle.",
            "DESIGN.md §4 C17"),
    "C11": ('Termination half: theorems C11_terminates / C11_returns / C11_entry_points / C11_progress: for every environment accepted by the '
            'verified certificate checker wf_cert (nullability post-fixpoint, strictly decreasing ranks of head calls, non-nullable repetition '
            'bodies and skip element, closed rule list), every parse and check of every expression from every good state returns a value or a '
            'failure (neither out-of-fuel nor panic) within the explicit bound fuel_bound; C11_example / C11_rejects_left_recursion. Tie: the '
            'certificate is inferred and checked by the extracted model for every corpus grammar, the model is re-run at exactly fuel_bound, '
            'the real parsers run under a watchdog. Verdict parity (real generator under catch_unwind vs pest_meta parse/validate/consume_rules '
            'on deliberately ill-formed grammars, seeded mutations and random grammars, single and multiple grammar sources, inline and as files '
            'relative to CARGO_MANIFEST_DIR and to its src/), the corpus compiled with pest_optimizer = false under the same watchdog, the structural '
            "pipeline-order check of typed.rs and 'compiles' (derive corpus) compare real programs and are decided by validation runs.",
            'DESIGN.md §4 C11, §10'),
    "C18": ("Theorems C18_eq_debug / C18_ne_debug / C18_eq_hash / C18_refl / C18_sym / C18_trans for all tnode pairs (field-by-field models "
            "of the derived / hand-written Eq, Hash, Debug). Tie: every pair of results over all sub-inputs of one String: ==, two "
            "hashers, Debug, clone, second parse; three run orders + fresh processes (statelessness is checked on the code, not claimed by "
            "a theorem); containers whose direct elements are sequences; the span-free raw combinators of harness/unitskip (SKIP in 0..3): == iff "
            "same {:?}, != is not ==, equal hash, clone, on every parsed value.", "DESIGN.md §4 C18"),
    "C20": ('Theorems C20_boxing_sound (for every rule list no cycle of the mention graph runs through unboxed rules only: the round cap never '
            'stops the analysis early), C20_boxing_minimal, C20_boxing_invariant, C20_boxing_off, C20_boxing_example; C20_opt_raw_partial (raw '
            'and optimized translation coincide where the optimizer only added RestoreOnErr), C20_skip_rewrite / C20_skip_rewrite_on_check / C20_skip_rewrite_fuel / '
            'C20_skip_spec_unique (the skip-until node the optimizer introduces == (!(t1 | ..) ~ ANY)* on the real parse and check path: same offset = first '
            'boundary where a terminator matches within the range, same logical stack, never fails or panics; premises repaired skip_until + valid UTF-8, '
            'both shown necessary), witness C20_refuted_skip (known finding F6). '
            'Ties: V1b (boxed flag of every rule! the real generator emits with box_only_if_needed on/off == Model/Boxing.v, recursion-biased '
            'seeded grammars, + acyclicity of the unboxed graph evaluated on the real flags); token-stream hashes across fresh processes; '
            'parsing-relevant generator output under every representation-only option set == default (gen_dump); V1 for both AST paths; a '
            'corpus compiled with pest_optimizer = false against the raw model and the PEG spec; the skip-until node of the optimizer against the '
            'expression it replaces on every string and every Span / Position sub-input (catalogue pairs); compile matrix of recursive grammars under '
            'option sets.',
            'DESIGN.md §4 C20, §10'),
    "C03": ("Theorem C03_check_is_parse (all environments, expressions, states, fuel): tcheck = erase . tparse incl. stack and tracker "
            "trace; lifted to partial and full entry points; C03_same_report / C03_check_fail_parse_fail: a rejected check entry point and the "
            "rejected parse entry point render the identical report (Model/Report.v over the same tracker trace). Tie: every catalogue shape x all small inputs, model vs runtime crate "
            "(parse path and check path separately) and implementation parse vs check directly.", "DESIGN.md §4 C03"),
    "C05": ("Theorem C05_no_trace: the concrete parse path (pest::Stack with snapshots, repaired restore_on_none) refines the "
            "immutable-stack reference interpreter aparse under the Stack representation invariant, for all expressions/inputs/fuel; "
            "C05_pred_restores; witness C05_refuted_before_fix. Tie: stack family of the catalogue + exhaustive pest::Stack op "
            "histories; oracle = aparse.", "DESIGN.md §4 C05"),
    "C06": ("Theorems over the regenerated index functions (C06_slice_spec, translator tie T1) and the slice spec; stack built-ins "
            "on the reference interpreter and (C06_real_*) on the REAL path through the logical content of the bug-for-bug pest::Stack model: "
            "PUSH pushes exactly the matched span, POP / PEEK / DROP / PEEK_ALL / POP_ALL / PEEK[a..b] effects, graceful failure and the total "
            "forms for parse and check path, never a half-popped stack, empty and negative slices; tie: slices family (all a,b in the tier's range x stack depth 0..4 from the input).",
            "DESIGN.md §4 C06"),
    "C19": ("Theorems C19_rep_bounds (reference interpreter: exactly the greedy run of consecutive units, MIN <= count <= MAX, cursor at "
            "the end of the last matched unit, failure only below MIN), C19_rep_bounds_impl / C19_rep_fails_impl (real parse path, via "
            "C05), C19_array, C19_pair, C19_opt, C19_skip_chars (real parse and check path on valid UTF-8: exactly the first N characters or "
            "failure), C19_atomic_rep (+ C19_atomic_rep_silent: no tracker events), C19_real_path; witness C19_refuted_before_fix. Tie: bounds family (all MIN, MAX incl. MIN > MAX) with the reference "
            "interpreter and an independent counting oracle; explicit skip counts (SKIP in 0..3 with bounded, non-idempotent skip nodes, outside the "
            "main model's off / on / inherited): RepMin / RepMinMax / RepExact / Rep / RepOnce / Seq2 / Seq3 / nested, parse and check vs the counting "
            "specification on all strings over {a, b, blank} up to the tier's length (harness/unitskip, vlib/skipn.py).", "DESIGN.md §4 C19"),
    "C08": ("Tie: every catalogue shape x every Span(s,a,b) / Position(s,a) sub-input vs the fresh slice shifted by a (verdicts, offsets, "
            "trees, stack, tracker, tokens), model vs code on all three cursor forms; byte-level model of the three cursors incl. the "
            "repaired skip_until. Theorem status: see Properties/C08.v.", "DESIGN.md §4 C08"),
    "C12": ("Theorems C12_line_col / C12_line_of / C12_boundaries for all valid UTF-8 strings and boundary offsets (CR/LF state machine "
            "collapses to the declarative spec; unreachable branches proved unreachable); tie: exhaustive small strings + random texts "
            "against pest::Position (oracle) and the model.", "DESIGN.md §4 C12"),
    "C13": ("Theorems C13_new / C13_get / C13_split / C13_lines_span / C13_lines / C13_merge / C13_eq for all strings and spans, plus the algebra "
            "C13_get_sub_text / C13_get_compose / C13_merge_adjacent_text / C13_merge_idem / C13_merge_is_hull; tie: "
            "exhaustive small strings x all (start,end) pairs x all sub-ranges / span pairs against pest::Span and the model.",
            "DESIGN.md §4 C13"),
    "C14": ("(the display width of a STRING is an arbitrary function in every theorem: nothing is assumed about emoji / ZWJ / VS16 sequences) "
            "Theorems C14_total_repaired / C14_total_position (no panic for any input), C14_rows_of_the_code (exact characterisation), "
            "C14_rows_partial under the decidable exclusion of the known class, witnesses C14_refuted_*; tie: exhaustive small strings x "
            "all spans/positions incl. recording FormatOption against the model and an independent oracle, display-width classes and a sequence "
            "corpus measured with the real string widths of unicode-width, placeholders with width / precision / alignment print what {} prints; known finding F4b "
            "(span starting at a line start is rendered from the previous line; pinned by an existing test).", "DESIGN.md §4 C14"),
    "C04": ("Theorems C04_full_iff / C04_check_iff / C04_eoi_attempt (try_parse = Ok iff prefix parse + trailing skip (none for atomic "
            "kinds) + at end; tree of the prefix parse), C04_no_success_with_unread, C04_no_reject_at_end; against pest's own semantics "
            "(Model/PegSpec.v): C04_no_ignore_by_kind, C04_trailing_skip_is_pest_skip (the typed trailing skip = pest's implicit skip in non-atomic "
            "state: same offset, same stack), C04_full_parse_is_pest / C04_full_parse_agrees (try_parse accepts exactly when pest's prefix match "
            "followed, unless the rule is atomic / compound-atomic, by pest's implicit skip reaches the end of the input), C04_full_parse_total "
            "(no premise on either run under the C11 certificate), C04_example. Tie: rule structs of all "
            "kinds x inputs with skippable / pseudo-skippable tails x three input forms, against an independent trailing-skip oracle.",
            "DESIGN.md §4 C04"),
    "C09": ("Theorems C09_matchers (+ per-operation forms, C09_prefix_code), C09_boundaries / C09_boundaries_check (for every expression, "
            "good input/cursor/state: never Panic, cursor monotone and on a boundary in range, every span in the tree, on the stack and "
            "every event position good), C09_entry_points, C09_error_location, C09_span_text. Runtime part (partial by nature): debug and "
            "release builds of every catalogue shape on multi-byte alphabets, catch_unwind + exit status, every reported offset re-checked, "
            "debug == release == model.", "DESIGN.md §4 C09"),
    "C10": ("Theorems C10_tracker_truth (for every event trace: what the report lists has a matching exit event at the reported "
            "position), C10_position_ge_start, C10_location (a rejected full parse reports at or after the EOI attempt following the "
            "matched prefix), C10_trace_sound / C10_report_truthful / C10_report_unexpected_matches (every logged exit event and every "
            "listed rule is backed by the rule body's verdict in the state it was tried in), C10_report_says / C10_report_complete / "
            "C10_report_lists_sorted / C10_rendered_report_truthful (Model/Report.v = collect_to_message: the rendered lines call a rule "
            "expected / unexpected exactly when it is in the entry's positives / negatives, so truthfulness holds of the text), C10_head_line / "
            "C10_head_line_no_panic / C10_entry_report_head_renders (Model/ReportHead.v = the head of the message, `&line[..byte index of the "
            "(col-1)-th char]`: never panics at the location any entry point reports, and is the text between the last LF and that location), "
            "C10_head_line_example. Tie: the head text and the indentation of the real message vs the model (RP field); "
            "Tracker::finish() and the rendered report lines of the real code vs the model for every run; location checks on the tracker AND "
            "on the Error handed to the user (location = furthest position, not before the matched prefix, line / column = pest's); the harness "
            "re-derives every rendered line from finish(); rendering twice + second process; semantic audit on the real code (expected "
            "rules re-run at the reported location).",
            "DESIGN.md §4 C10, §10"),
    "C15": ("Theorems C15_preorder / C15_levelorder / C15_render / C15_thin for every rose tree (loops = recursive specs, fuel bound "
            "proved); C15_nesting / C15_entry_nesting / C15_rule_token / C15_siblings_ordered / C15_nested_everywhere: for EVERY "
            "successful run of the real parse path (any expression, environment, input, no hypothesis) the token tree the Pair API "
            "exposes is well nested (children inside their parent's span) and siblings are in input order and disjoint; a non-silent "
            "rule is one token spanning exactly what it consumed. Ties: real iterators.rs on all tree shapes up to the tier's node "
            "bound + random trees; the thin-token tree of every rule of the misc / uni catalogue families (all rule kinds, bounded and "
            "unbounded repetitions with non-silent skipped tokens) vs Model/Tokens.v.", "DESIGN.md §4 C15, §10"),
}

checks = []
for p in props:
    pid = p["id"]
    if pid in CLAIMS:
        text, ref = CLAIMS[pid]
        checks.append({
            "property_id": pid,
            "quick_cmd": "./vcheck %s --tier quick" % pid,
            "thorough_cmd": "./vcheck %s --tier thorough" % pid,
            "evidence_file": "evidence/%s.json" % pid,
            "replay_cmd_template": "./vcheck replay {path}",
            "engine": "coq+diff",
            "level_claimed": {"category": "proof", "text": text, "design_ref": ref},
            "level_note": TB,
            "technique": "machine-checked proof in Coq of a model, tied to the code by regenerated translation and differential correspondence runs",
        })
m = {
    "version": 1,
    "setup_cmd": "./vcheck setup",
    "hooks": {"guard": "pest_typed_verif", "enable": "RUSTFLAGS=\"--cfg pest_typed_verif\" cargo build --offline",
              "baseline_off_cmd": "cd /repo && cargo test --workspace --no-fail-fast --offline",
              "source_commits": ["66393c4"], "add_only": True},
    "engines": [{"name": "coq+diff", "path": "vcheck", "serves_properties": sorted(CLAIMS),
                 "kind_free_text": "Coq 8.16.1 proofs over a model of pest-typed, tied to /repo by a regenerating translator "
                                   "(tools/rs2v.py, gen_dump) and by differential runs of the extracted model against the real crates"}],
    "checks": checks,
    "not_applicable": [{"property_id": p["id"], "reason": "not claimed"}
                       for p in props if p["id"] not in CLAIMS],
    "notes": "see DESIGN.md; fixes committed to /repo are listed in KNOWN_FINDINGS.json (status fixed)",
}
json.dump(m, open(os.path.join(V, "MANIFEST.json"), "w"), indent=1)
print("claimed:", sorted(CLAIMS))
