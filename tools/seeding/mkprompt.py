import json,sys
pid=sys.argv[1]
for l in open('/verif/properties.jsonl'):
    p=json.loads(l)
    if p['id']==pid: break
a=p['anchors']
txt=f"""# Property {pid}: {p['title']}

{p['statement']}

## Where the mechanism lives (paths relative to the repository root)
files: {', '.join(a['files'])}
"""
for m in a.get('mechanism',[]): txt+=f"- {m['name']} — {m['where']}\n"
txt+="\nobserve at: "+'; '.join(a.get('observe_at',[]))+"\n"
for s in a.get('state',[]) or []: txt+=f"state: {s['name']} — {s['meaning']} ({s['where']})\n"
open(f'/tmp/wt/{pid}/PROPERTY.md','w').write(txt)
