//! Property C01: the typed parser must succeed exactly when pest succeeds and stop at the same
//! byte offset.
//!
//! `NEWLINE` is `"\r\n" | "\n" | "\r"`, so on a CRLF it consumes both bytes. Predicates are
//! evaluated through the tree-less matcher (`try_check_partial_with`). If that matcher tries
//! `"\r"` before `"\r\n"`, a `NEWLINE` inside a predicate consumes only the `\r` of a CRLF and
//! whatever follows `NEWLINE` inside the predicate is matched against the `\n`:
//! `!(NEWLINE ~ " ")` (no continuation line follows) wrongly holds on `"ab\r\n cd"`, and
//! `&(NEWLINE ~ "x")` wrongly fails on `"\r\nx"`.

use pest::Parser as _;
use pest_typed::{Input as _, ParsableTypedNode as _};
use pest_typed_derive::TypedParser;

mod reference {
    #[derive(pest_derive::Parser)]
    #[grammar_inline = r#"
last = @{ ASCII_ALPHA+ ~ !(NEWLINE ~ " ") ~ NEWLINE }
look = @{ &(NEWLINE ~ "x") ~ NEWLINE }
"#]
    pub struct Parser;
}

#[allow(dead_code)]
#[derive(TypedParser)]
#[grammar_inline = r#"
last = @{ ASCII_ALPHA+ ~ !(NEWLINE ~ " ") ~ NEWLINE }
look = @{ &(NEWLINE ~ "x") ~ NEWLINE }
"#]
struct Parser;

fn pest_end(rule: reference::Rule, input: &str) -> Option<usize> {
    reference::Parser::parse(rule, input)
        .ok()
        .map(|mut pairs| pairs.next().unwrap().as_span().end())
}

#[test]
fn newline_in_negative_predicate_on_crlf() {
    for input in ["ab\r\n cd", "ab\r\ncd", "ab\n cd", "ab\r cd", "ab\r\r\n"] {
        let typed = rules::last::try_parse_partial(input)
            .ok()
            .map(|(rest, _)| rest.byte_offset());
        assert_eq!(typed, pest_end(reference::Rule::last, input), "{input:?}");
    }
    // Continuation line after a CRLF: pest rejects, so must the typed parser.
    assert!(rules::last::try_parse_partial("ab\r\n cd").is_err());
}

#[test]
fn newline_in_positive_predicate_on_crlf() {
    for input in ["\r\nx", "\nx", "\rx", "\r\ny"] {
        let typed = rules::look::try_parse_partial(input)
            .ok()
            .map(|(rest, _)| rest.byte_offset());
        assert_eq!(typed, pest_end(reference::Rule::look, input), "{input:?}");
    }
    let (rest, _) = rules::look::try_parse_partial("\r\nx").unwrap();
    assert_eq!(rest.byte_offset(), 2);
}
