#!/usr/bin/env python3
"""Evaluate one seeded change:  tools/seedeval.py <worktree> <A|B> [check ids...]

1. confirm it in the scratch worktree (suite green with the change, demo fails with it, passes without it);
2. store it under /verif/seeded/<prop>-<x>/ (patch.diff, demo.rs, meta.json);
3. apply it to /repo, run the given checks (default: the property's own quick check), undo it straight afterwards;
4. record in meta.json what was run and which checks raised a VIOLATION.
Nothing is ever committed to /repo."""
import json
import os
import re
import shutil
import subprocess
import sys
import time

VERIF = os.path.dirname(os.path.dirname(os.path.abspath(__file__)))
REPO = "/repo"
ENV = dict(os.environ, CARGO_NET_OFFLINE="true")


def sh(cmd, cwd, timeout=3600):
    p = subprocess.run(cmd, cwd=cwd, shell=True, capture_output=True, text=True, timeout=timeout, env=ENV)
    return p.returncode, p.stdout + p.stderr


def suite(wt):
    rc, out = sh("cargo test --workspace --no-fail-fast --offline 2>&1", wt)
    passed = sum(int(x) for x in re.findall(r"test result: \w+\. (\d+) passed", out))
    failed = sum(int(x) for x in re.findall(r"test result: \w+\. \d+ passed; (\d+) failed", out))
    return rc, passed, failed, out


def recheck(sid, checks):
    """re-run checks against an already confirmed and stored seeded change (seeded/<sid>/patch.diff)"""
    dst = os.path.join(VERIF, "seeded", sid)
    meta = json.load(open(os.path.join(dst, "meta.json")))
    prop = meta["property"]
    if not checks:
        checks = [prop]
    rc, out = sh("git status --porcelain --untracked-files=no", REPO)
    if out.strip():
        print("/repo is not clean:", out)
        return 2
    rc, out = sh("git apply --whitespace=nowarn %s" % os.path.join(dst, "patch.diff"), REPO)
    if rc != 0:
        print("patch does not apply to /repo:", out)
        return 2
    results = meta.get("checks_run", {})
    try:
        run_checks(checks, dst, results)
    finally:
        sh("git checkout -- .", REPO)
    meta["checks_run"] = results
    meta["detected_by"] = sorted(k for k, v in results.items() if v["exit"] == 1 and v["violations"] > 0)
    json.dump(meta, open(os.path.join(dst, "meta.json"), "w"), indent=1)
    return 0


def run_checks(checks, dst, results):
    for c in checks:
        tier = "quick"
        if ":" in c:
            c, tier = c.split(":")
        t0 = time.time()
        ev = os.path.join(VERIF, "evidence", "%s.json" % c)
        ev_bak = ev + ".seedbak"
        if os.path.exists(ev):
            shutil.copy(ev, ev_bak)
        before = set(os.listdir(os.path.join(VERIF, "replays")))
        p = subprocess.run(["./vcheck", c, "--tier", tier], cwd=VERIF, capture_output=True, text=True, env=ENV)
        lines = [l for l in p.stdout.split("\n") if l.startswith("VIOLATION")]
        new = sorted(set(os.listdir(os.path.join(VERIF, "replays"))) - before)
        for f in new:          # replays of seeded runs are not evidence of the unchanged tree
            os.makedirs(os.path.join(dst, "replays"), exist_ok=True)
            os.replace(os.path.join(VERIF, "replays", f), os.path.join(dst, "replays", f))
        for f in sorted(os.listdir(os.path.join(dst, "replays")))[3:] if os.path.isdir(os.path.join(dst, "replays")) else []:
            os.remove(os.path.join(dst, "replays", f))
        if os.path.exists(ev_bak):
            os.replace(ev_bak, ev)
        results["%s:%s" % (c, tier)] = {"exit": p.returncode, "violations": len(lines), "first": (lines[0][:400] if lines else ""),
                                        "no_failing_input": sum(1 for l in lines if l.rstrip().endswith("no-failing-input-found")),
                                        "wall_s": round(time.time() - t0)}
        print(c, tier, results["%s:%s" % (c, tier)])


def main():
    if sys.argv[1] == "--recheck":
        return recheck(sys.argv[2], sys.argv[3:])
    wt, x = sys.argv[1], sys.argv[2]
    checks = sys.argv[3:]
    mdir = os.path.join(wt, "MUT", x)
    meta = json.load(open(os.path.join(mdir, "meta.json")))
    prop = meta["property"]
    patch = os.path.join(mdir, "patch.diff")
    demo_path = meta["demo_path"]
    demo_cmd = meta["demo_cmd"]
    if "--offline" not in demo_cmd:
        demo_cmd = demo_cmd.replace("cargo test", "cargo test --offline")
    log = {}
    # --- clean state: sources as in HEAD, demo file present
    sh("git checkout -- main generator derive", wt)
    demo_abs = os.path.join(wt, demo_path)
    if not os.path.exists(demo_abs):
        shutil.copy(os.path.join(mdir, "demo.rs"), demo_abs)
    # other demo files must not disturb the suite count: move them away
    others = []
    for d in ("derive/tests", "main/tests", "generator/tests"):
        dd = os.path.join(wt, d)
        if os.path.isdir(dd):
            for f in os.listdir(dd):
                if f.startswith("seeded_demo") and os.path.join(dd, f) != demo_abs:
                    others.append(os.path.join(dd, f))
    for f in others:
        os.rename(f, f + ".off")
    try:
        rc, out = sh(demo_cmd + " 2>&1", wt)
        log["demo_without_change"] = "pass" if rc == 0 else "FAIL"
        rc, out = sh("git apply --whitespace=nowarn %s" % patch, wt)
        if rc != 0:
            print("patch does not apply:", out)
            return 2
        rc, out = sh(demo_cmd + " 2>&1", wt)
        log["demo_with_change"] = "fail" if rc != 0 else "PASS"
        log["demo_failure_excerpt"] = "\n".join([l for l in out.split("\n") if "panicked" in l or "assert" in l or "left:" in l or "right:" in l][:8])
        os.rename(demo_abs, demo_abs + ".off")
        rc, passed, failed, out = suite(wt)
        if rc != 0 and failed <= 2:
            # generator/tests/generator.rs runs `cargo fmt --all` from two tests concurrently and is flaky: once more
            log["suite_first_attempt"] = {"exit": rc, "passed": passed, "failed": failed,
                                          "failed_tests": re.findall(r"^test (\S+) \.\.\. FAILED", out, re.M)[:5]}
            rc, passed, failed, out = suite(wt)
        os.rename(demo_abs + ".off", demo_abs)
        log["suite_with_change"] = {"exit": rc, "passed": passed, "failed": failed}
        sh("git checkout -- main generator derive", wt)
    finally:
        for f in others:
            if os.path.exists(f + ".off"):
                os.rename(f + ".off", f)
    confirmed = (log["demo_without_change"] == "pass" and log["demo_with_change"] == "fail"
                 and log["suite_with_change"]["exit"] == 0 and log["suite_with_change"]["failed"] == 0)
    log["confirmed"] = confirmed
    print(json.dumps(log, indent=1))
    if not confirmed:
        print("NOT CONFIRMED; not kept")
        return 1
    # --- keep
    sid = "%s-%s%s" % (prop, x, os.environ.get("SEED_ROUND", ""))
    dst = os.path.join(VERIF, "seeded", sid)
    os.makedirs(dst, exist_ok=True)
    shutil.copy(patch, os.path.join(dst, "patch.diff"))
    shutil.copy(os.path.join(mdir, "demo.rs"), os.path.join(dst, "demo.rs"))
    meta["confirmation"] = log
    meta["confirmation_cmds"] = ["cargo test --workspace --no-fail-fast --offline (with the change, demo moved away)", demo_cmd + " (with and without the change)"]
    # --- run the checks against /repo with the change applied
    if not checks:
        checks = [prop]
    rc, out = sh("git status --porcelain --untracked-files=no", REPO)
    if out.strip():
        print("/repo is not clean:", out)
        return 2
    rc, out = sh("git apply --whitespace=nowarn %s" % os.path.join(dst, "patch.diff"), REPO)
    if rc != 0:
        print("patch does not apply to /repo:", out)
        return 2
    results = meta.get("checks_run", {})
    try:
        run_checks(checks, dst, results)
    finally:
        sh("git checkout -- .", REPO)
    meta["checks_run"] = results
    meta["detected_by"] = sorted(k for k, v in results.items() if v["exit"] == 1 and v["violations"] > 0)
    json.dump(meta, open(os.path.join(dst, "meta.json"), "w"), indent=1)
    return 0


if __name__ == "__main__":
    sys.exit(main())
