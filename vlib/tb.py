"""Trusted base, restated in every evidence file."""
BASE = [
    "Coq 8.16.1 kernel (coqc full .vo builds; vm_compute only inside Example/witness lemmas; no native_compute)",
    "no axioms: every property theorem must print 'Closed under the global context'",
    "tools/rs2v.py (Rust subset -> Gallina translator) for the regenerated Gen/*.v",
    "Coq extraction (ExtrOcamlBasic + ExtrOcamlNatInt-free: nat/N/Z stay Coq datatypes) and OCaml 4.13.1 for running the model; cross-checked on a sample by vm_compute",
    "the Rust harnesses under harness/ and the comparator in vlib/ (differential runs against /repo's working tree)",
    "rustc/cargo 1.95; pest, pest_meta, pest_derive 2.7.14 as oracle",
    "hand-written model of main/src and generator/src (everything except the rs2v-translated functions is modelled, tied by correspondence runs only)",
]
