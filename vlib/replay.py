"""./vcheck replay <path>: re-run a recorded violation on the real code (current /repo working tree)."""
import json
import os
import subprocess
import sys

from .common import CACHE, VERIF, log


def main(path):
    rep = json.load(open(path if os.path.isabs(path) else os.path.join(VERIF, path)))
    pid = rep.get("property", "?")
    print("replay of %s: %s" % (pid, rep.get("what", "")[:300]))
    # 1. parser-level cases recorded by the catalogue checks: env + shape + input
    if "shape" in rep and "env" in rep and "input_hex" in rep:
        from . import rtcat, build, catalogue, core
        tier = rep.get("tier", "quick")
        envs = catalogue.catalogue(tier)
        bindir, shard_of, nshard = rtcat.build_crate("core_%s" % tier, envs, rtcat.NCPU, "debug")
        en = rep.get("env_name")
        k = shard_of.get(en)
        line = "(for %s)\n(in %s %s %d %d)\n" % (en, rep.get("form", "str"), rep["input_hex"], rep.get("a", 0), rep.get("b", 0))
        p = subprocess.run([os.path.join(bindir, "shard%d" % k)], input=line, capture_output=True, text=True)
        want = "%s.s%d|" % (en, rep.get("shape_index", 0))
        now = [ln for ln in p.stdout.split("\n") if ln.startswith(want)]
        print("recorded implementation output:\n  %s" % rep.get("impl", "")[:1500])
        print("implementation output now:\n  %s" % (now[0][:1500] if now else "(none)"))
        print("model / oracle at recording time:\n  %s\n  %s" % (rep.get("model", "")[:800], str(rep.get("oracle", ""))[:800]))
        same = bool(now) and now[0].split("|X:")[0] == rep.get("impl", "")
        print("REPRODUCES" if same else "DIFFERS FROM THE RECORDING (code changed since)")
        return 0 if same else 1
    # 2. grammar-level cases
    if "grammar" in rep:
        print("grammar:\n%s" % rep["grammar"])
        for k in ("rule", "input_hex", "typed", "spec", "impl", "options", "pest", "generator", "rustc"):
            if k in rep:
                print("%s: %s" % (k, str(rep[k])[:1500]))
        from . import gendump
        gendump.build()
        r = gendump.dump_one(rep["grammar"], rep.get("options") if isinstance(rep.get("options"), dict) else None)
        print("generator now: meta_ok=%s gen_ok=%s %s" % (r.meta_ok, r.gen_ok, (r.gen_msg or r.meta_msg or "")[:300]))
        return 0
    # 3. dedicated harnesses
    for mod, fn in (("eqhash", "replay_case"), ("trees", "replay_case"), ("arity", "replay")):
        if rep.get("kind") == mod or mod in str(rep.get("harness", "")):
            m = __import__("vlib.%s" % mod, fromlist=[fn])
            return getattr(m, fn)(rep) or 0
    print(json.dumps(rep, indent=1)[:4000])
    return 0
