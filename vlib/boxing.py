"""C20, boxing half.  V1b: the `boxed` argument of every rule! invocation the REAL generator emits with
`box_only_if_needed` on and off == Model/Boxing.v (`boxed_flags`, extracted: ocaml/Boxing_drv.ml), for a corpus
biased to recursion (self, mutual, through WHITESPACE / COMMENT, through predicates / PUSH / repetitions).
T3 (the property itself, evaluated on the real flags): no cycle of the mention graph runs through unboxed rules only
(a type built only from inline fields would be infinite and rustc would reject it)."""
import subprocess

from . import grammar, gendump, build
from .common import Rng

RECURSIVE_HAND = [
    'a = { "a" ~ b* }\nb = { "b" ~ c? }\nc = { a+ }',
    'a = { "(" ~ a? ~ ")" }',
    'a = { "x" ~ b }\nb = { "y" | a }',
    'a = { "x" ~ (b | c) }\nb = { "y" ~ a? }\nc = { "z" ~ c* ~ "." }',
    'a = { "x" ~ &b ~ "y" }\nb = { "x" ~ !a ~ "y" }',
    'a = { PUSH(b) ~ POP }\nb = { "x" ~ a? }',
    'WHITESPACE = { " " }\na = { "x" ~ "y" }',
    'WHITESPACE = _{ " " ~ a? }\na = { "x" }',
    'WHITESPACE = _{ " " ~ a? }\na = _{ "x" }',
    'COMMENT = { "#" ~ a? }\na = { "x" ~ "y" }',
    'WHITESPACE = { " " }\nCOMMENT = { "#" }\na = { "x" ~ b }\nb = { "y" ~ a? }',
    'a = { b }\nb = { c }\nc = { d }\nd = { e }\ne = { "x" ~ a? }',
    'a = _{ "x" ~ b? }\nb = @{ "y" ~ a? }\nc = ${ a ~ b }',
    'e = { t ~ ("+" ~ t)* }\nt = { f ~ ("*" ~ f)* }\nf = { "n" | "(" ~ e ~ ")" }',
    'a = { "x" ~ a? ~ b? }\nb = { "y" ~ b? }\nc = { a ~ b }',
    'a = { b ~ c }\nb = { "b" ~ d? }\nc = { "c" ~ d? }\nd = { "d" ~ (b | c)? }',
]


def rec_grammar(rng):
    """random grammar with many rule references (cycles are likely); all consuming, so pest's validator accepts most"""
    n = 2 + rng.below(6)
    names = ["r%d" % i for i in range(n)]
    lines = []
    if rng.below(4) == 0:
        lines.append('WHITESPACE = %s{ " "%s }' % (rng.choice(["", "_", "@"]), rng.choice(["", " ~ %s?" % rng.choice(names)])))
    if rng.below(6) == 0:
        lines.append('COMMENT = %s{ "#"%s }' % (rng.choice(["", "_"]), rng.choice(["", " ~ %s?" % rng.choice(names)])))
    for i, nm in enumerate(names):
        parts = ['"%s"' % "abcdefgh"[i]]
        for _ in range(rng.below(4)):
            ref = rng.choice(names)
            w = rng.choice(["%s?", "%s*", "(%s | \"z\")", "&%s", "!%s", "PUSH(%s)?", "(\"q\" ~ %s)?", "%s?"])
            parts.append(w % ref)
        lines.append("%s = %s{ %s }" % (nm, rng.choice(["", "", "_", "@", "$", "!"]), " ~ ".join(parts)))
    return "\n".join(lines)


def cycles_through_unboxed(names, mentions, unboxed):
    """is there a cycle of the mention graph restricted to unboxed rules? returns a witness cycle or None"""
    adj = {n: [m for m in mentions.get(n, ()) if m in unboxed] for n in unboxed}
    color = {}
    stack = []

    def dfs(u):
        color[u] = 1
        stack.append(u)
        for v in adj.get(u, ()):
            if color.get(v) == 1:
                return stack[stack.index(v):] + [v]
            if v not in color:
                r = dfs(v)
                if r:
                    return r
        stack.pop()
        color[u] = 2
        return None
    for n in sorted(unboxed):
        if n not in color:
            r = dfs(n)
            if r:
                return r
    return None


def rule_mentions(ast):
    """name -> set of rule names mentioned anywhere in the expression (as collect_used_rule does)"""
    out = {}

    def walk(e, acc):
        if isinstance(e, (list, tuple)):
            if len(e) >= 2 and e[0] == "ident":
                acc.add(e[1] if isinstance(e[1], str) else str(e[1]))
            for x in e[1:]:
                walk(x, acc)
    for (n, k, e) in ast:
        acc = set()
        walk(e, acc)
        out[n] = acc
    return out


def check_boxing(ctx, tier):
    gendump.build()
    ok, exe = build.build_extraction("Boxing")
    if not ok:
        ctx.violation("boxing model driver does not build", {"log": exe[-1500:]}, found_input=False)
        return
    rng = Rng(ctx.seed).fork("boxing")
    nrand = 200 if tier == "quick" else 2000
    texts = list(RECURSIVE_HAND) + list(grammar.HAND) + grammar.repo_grammars()[:2]
    texts += [rec_grammar(rng.fork("r%d" % i)) for i in range(nrand)]
    texts += [grammar.rand_grammar(rng.fork("g%d" % i)) for i in range(nrand // 4)]
    ncmp = nrules = bad = nunboxed_cyc = 0
    per_opt = {}
    for on in (True, False):
        opts = {"box_only_if_needed": "true"} if on else {}
        gs = [("b%d_%d" % (1 if on else 0, i), t, opts) for i, t in enumerate(texts)]
        res = gendump.dump(gs)
        per_opt[on] = (gs, res)
    gs_on, res_on = per_opt[True]
    gs_off, res_off = per_opt[False]
    lines, meta = [], {}
    for (gid, t, _) in gs_on:
        r = res_on[gid]
        if not (r.meta_ok and r.gen_ok):
            continue
        line, names = grammar.model_request(gid, r, "opt")
        if line is None:
            continue
        meta[gid] = names
        lines.append(line)
    p = subprocess.run([exe], input="\n".join(lines) + "\n", capture_output=True, text=True)
    model = {}
    for ln in p.stdout.split("\n"):
        if ln.startswith("(result "):
            sx = gendump.parse_sexp(ln)
            model[sx[1]] = (sx[2], sx[3], sx[4])
    for i, (gid, t, _) in enumerate(gs_on):
        if gid not in meta:
            continue
        names = meta[gid]
        r_on, r_off = res_on[gid], res_off[gs_off[i][0]]
        if gid not in model:
            ctx.violation("boxing model gave no answer", {"grammar": t}, found_input=False)
            continue
        noupd, m_on, m_off = model[gid]
        real_on = {n: b for (n, a, e, b, ty, x) in r_on.typed_rule_list()}
        real_off = {n: b for (n, a, e, b, ty, x) in r_off.typed_rule_list()} if (r_off.meta_ok and r_off.gen_ok) else {}
        s_on = "".join("1" if real_on.get(n) == "true" else "0" for n in names) or "-"
        s_off = "".join("1" if real_off.get(n) == "true" else "0" for n in names) or "-"
        ncmp += 1
        nrules += len(names)
        ctx.evaluations += 1
        if s_on != m_on or s_off != m_off:
            bad += 1
            if bad <= 3:
                ctx.violation("V1b: boxed flags emitted by the real generator differ from Model/Boxing.v",
                              {"grammar": t, "rules": names, "real box_only_if_needed=on": s_on, "model on": m_on,
                               "real off": s_off, "model off": m_off, "broken": "V1b extract(generator(g)).boxed = boxed_flags(g)"},
                              found_input=False)
        # T3 on the REAL flags: every cycle of rule mentions passes through a boxed rule (else the type is infinite)
        ast = r_on.ast("ast_opt")
        ment = rule_mentions(ast)
        # implicit mentions: a NORMAL rule mentions WHITESPACE / COMMENT (they are skipped inside it)
        kinds = {n: k for (n, k, e) in ast}
        for n in names:
            if kinds.get(n) == "normal":
                for s in ("WHITESPACE", "COMMENT"):
                    if s in kinds:
                        ment[n].add(s)
        unboxed = {n for n in names if real_on.get(n) != "true"}
        cyc = cycles_through_unboxed(names, ment, unboxed)
        if "0" in s_on:
            ctx.nontrivial.add("box:" + t)
        ctx.count("boxing_unboxed_rules=%d" % min(s_on.count("0"), 5))
        if cyc:
            nunboxed_cyc += 1
            ctx.violation("box_only_if_needed leaves a reference cycle without any Box: the generated struct types are infinitely sized "
                          "(rustc rejects them): %s" % " -> ".join(cyc),
                          {"grammar": t, "options": {"box_only_if_needed": True}, "boxed_flags": dict(zip(names, s_on)), "cycle": cyc})
    ctx.coverage["boxing_grammars_compared"] = ncmp
    ctx.coverage["boxing_rules_compared"] = nrules
    ctx.coverage["boxing_flag_mismatches"] = bad
    ctx.coverage["boxing_unboxed_cycles"] = nunboxed_cyc
    ctx.oblige("V1b: boxed flags of the real generator == Model/Boxing.v boxed_flags on %d grammars (%d rules), both option values" % (ncmp, nrules),
               bad == 0 and ncmp > 0)
