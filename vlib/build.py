"""Builders for the extracted OCaml model drivers and the Rust harness crates."""
import os
import shutil

from .common import VERIF, REPO, CACHE, COQ, run, log, NCPU, hash_files, tree_files

OCAML = os.path.join(VERIF, "ocaml")
HARNESS = os.path.join(VERIF, "harness")
TARGET = os.path.join(CACHE, "target")
RUSTFLAGS = "--cfg pest_typed_verif"


def build_extraction(domain, timeout=900):
    """coq/extract/<domain>Extract.v  ->  .cache/ocaml/<domain>/<domain>_model.ml(i), then
    ocamlfind ocamlopt ocaml/<domain>_drv.ml -> .cache/ocaml/<domain>/<domain>_drv (native).
    The Coq library must already be built (make). Returns (ok, exe_path_or_log)."""
    outdir = os.path.join(CACHE, "ocaml", domain)
    os.makedirs(outdir, exist_ok=True)
    src = os.path.join(COQ, "extract", "%sExtract.v" % domain)
    drv = os.path.join(OCAML, "%s_drv.ml" % domain)
    common = [os.path.join(OCAML, f) for f in sorted(os.listdir(OCAML)) if f.startswith("common_") and f.endswith(".ml")]
    exe = os.path.join(outdir, "%s_drv" % domain)
    vo = [p for p in tree_files(os.path.join(COQ, "theories"), {".vo"})]
    key = hash_files([src, drv] + common + vo)
    stamp = os.path.join(outdir, "stamp")
    if os.path.exists(exe) and os.path.exists(stamp) and open(stamp).read() == key:
        return True, exe
    # extraction writes into cwd
    rc, so, se = run(["timeout", str(timeout), "coqc", "-Q", os.path.join(COQ, "theories"), "PT",
                      "-w", "-extraction-opaque-accessed,-extraction-reserved-identifier,-notation-overridden",
                      "-o", os.path.join(outdir, "%sExtract.vo" % domain), src], cwd=outdir, timeout=timeout + 30)
    if rc != 0:
        return False, "extraction failed:\n" + so[-2000:] + se[-2000:]
    ml = "%s_model" % domain.lower()
    for f in common:
        shutil.copy(f, outdir)
    shutil.copy(drv, outdir)
    files = ["%s.mli" % ml, "%s.ml" % ml] + [os.path.basename(f) for f in common] + [os.path.basename(drv)]
    rc, so, se = run(["ocamlfind", "ocamlopt", "-O2", "-w", "-a", "-o", exe] + files, cwd=outdir, timeout=900)
    if rc != 0:
        return False, "ocamlopt failed:\n" + so[-2000:] + se[-2000:]
    with open(stamp, "w") as f:
        f.write(key)
    return True, exe


def cargo_build(crate_dir, profile="debug", bins=None, timeout=3000, features=None, target_sub=None):
    """cargo build --offline of a harness crate with path deps on /repo. Always invoked (cargo's own
    fingerprinting rebuilds what changed in /repo's working tree). Returns (ok, target_dir_or_log)."""
    lock_src = os.path.join(REPO, "Cargo.lock")
    lock_dst = os.path.join(crate_dir, "Cargo.lock")
    if not os.path.exists(lock_dst):
        shutil.copy(lock_src, lock_dst)
    tdir = os.path.join(TARGET, target_sub) if target_sub else TARGET
    cmd = ["cargo", "build", "--offline", "-j", str(NCPU)]
    if profile == "release":
        cmd.append("--release")
    for b in bins or []:
        cmd += ["--bin", b]
    if features:
        cmd += ["--features", features]
    env = {"CARGO_TARGET_DIR": tdir, "RUSTFLAGS": RUSTFLAGS, "CARGO_NET_OFFLINE": "true"}
    rc, so, se = run(cmd, cwd=crate_dir, env=env, timeout=timeout)
    if rc != 0:
        return False, (so + se)[-6000:]
    return True, os.path.join(tdir, profile)
