"""C16: generated getters (`emit_rule_reference`).
V1g  : the getter TYPE / PATH the real generator emits (gen_dump, no rustc) == Model/Getter.v `getter_of`
       (ocaml/Getter_drv) for every rule x getter of every corpus grammar.
tie  : grammars compiled through pest_typed_derive with `#[emit_rule_reference = true]`; every getter of every
       rule is called on every successfully parsed input and flattened by a generic trait (`fl.rs`); compared with
       the model's `flatten_gval (call_getter ..)` (T2) and with the specification `direct_refs` / `mention_refs`
       evaluated on the model's parse tree (T3)."""
import hashlib
import os
import subprocess

from . import grammar, gendump, dcorp, build, rtcat, gencore
from .common import Rng, CACHE, REPO, VERIF, NCPU, log, run
from .core import MODEL_FLAGS
from .rtcat import write_if_changed, file_sha

# ------------------------------------------------------------ grammars biased towards getter structure
# hand-written: repeated mentions, mentions under nested ? | *, &x, PUSH(x), !x, built-ins, silent / atomic targets,
# the same rule reached directly and through another rule
BIASED_HAND = [
    'r = { (a ~ b)? ~ (a | b ~ a)* ~ &b ~ PUSH(b)? ~ (b | a)? }\na = { "a" }\nb = { "b" }',
    'r = { a ~ a ~ a }\na = { "a" | "b" }',
    'r = { (a ~ a) ~ a ~ (a ~ (a ~ a)) }\na = { "a" }',
    'r = { a | b | a | (a ~ b) | c }\na = { "a" ~ "x" }\nb = { "b" }\nc = { "a" }',
    'r = { (a?)? ~ ((a | b)?)* ~ (a* | b)? ~ "." }\na = { "a" }\nb = { "b" }',
    'r = { ((a | b)? | c)? ~ (a? | b*) }\na = { "a" }\nb = { "b" }\nc = { "c" }',
    'r = { (a ~ (b ~ a)*)* ~ (a | b)+ }\na = { "a" }\nb = { "b" }',
    'r = { &a ~ a ~ !b ~ &(a | b) ~ (a | b) }\na = { "a" }\nb = { "b" }',
    'r = { PUSH(a) ~ PUSH(a | b)* ~ (POP | b)? ~ &PUSH(b)? }\na = { "a" }\nb = { "b" }',
    'r = { s ~ a ~ s }\ns = { a ~ a? }\na = { "a" }',
    'r = { s* ~ a }\ns = _{ a ~ b? }\na = { "a" }\nb = _{ "b" }',
    'r = { (b | a)* ~ b? }\na = @{ "a"+ }\nb = _{ "b" | "c" }',
    'r = { ANY ~ (ANY | a)? ~ ASCII_DIGIT* ~ ASCII_HEX_DIGIT? ~ (SOI | a) ~ EOI? }\na = { "a" }',
    'r = { (LETTER ~ a?)* ~ NEWLINE? ~ (LETTER | NUMBER)? }\na = { "1" }',
    'WHITESPACE = _{ " " }\nr = { a ~ (a ~ b)* ~ (b | a)? }\na = { "a" }\nb = ${ "b" ~ a? }',
    'WHITESPACE = { " " }\nCOMMENT = { "#" }\nr = { a* ~ WHITESPACE? ~ (COMMENT | a)* }\na = { "a" }',
    'r = _{ a ~ (b | a)* }\nt = { r ~ a? ~ r? }\na = { "a" }\nb = { "b" }',
    'r = ${ a ~ (!b ~ a)* ~ b? }\nn = !{ r ~ a ~ (r | a)* }\na = { "a" }\nb = { "b" }',
    'r = { a ~ r? ~ a? }\na = { "a" | "(" ~ r ~ ")" }',
    'r = { (a | a ~ a | a ~ a ~ a) ~ (a ~ a)? }\na = { "a" | "b" }',
    'r = { a{2} ~ b{1,2} ~ a{,2} ~ (a | b){1,} }\na = { "a" }\nb = { "b" }',
    'r = { a+ ~ (b+)? ~ (a+ | b)* }\na = { "a" }\nb = { "b" }',
    'r = { ((((a)))) ~ (((a | (b))))? }\na = { "a" }\nb = { "b" }',
    'r = { a ~ b ~ a ~ b ~ a ~ b ~ a ~ b ~ a ~ b ~ a ~ b ~ a }\na = { "a" }\nb = { "b"? }',
    'r = { (a | b | c | a | b | c | a | b | c | a | b | c | a)* }\na = { "a" ~ "1" }\nb = { "a" ~ "2" }\nc = { "a" }',
    # an optional directly under PUSH / & (content edges), itself under an optional or an alternative
    'r = { (PUSH(a?) ~ "!")? ~ "." }\nr2 = { (&(a?) ~ "!")? ~ "." }\nr3 = { &(a?) ~ "!" | b }\nr4 = { (PUSH(&(a?))? ~ "!")* ~ (PUSH(a*))? }\na = { "a" }\nb = { "b" }',
    # a name shared by alternatives of different sizes (join order), no common prefix
    'r = { "a" ~ x | "b" ~ x ~ y }\ns = { "a" ~ x | "b" ~ y ~ x | "c" ~ x ~ y ~ z }\nt = { ("a" ~ x ~ y ~ z | "b" ~ y | "c" ~ z ~ x)* }\nx = { "x" }\ny = { "y" }\nz = { "z" }',
    # binary sequences / choices only: the optimized and the un-optimized AST coincide, so the two accessor builders are compared code
    # against code on them (raw_getters_same), slot by slot
    'signed = { x ~ "+" | "-" ~ x }\neither = { x ~ y | y ~ x }\ngroup = { "(" ~ (x ~ "!" | "?" ~ x) ~ ")" }\nx = { "a" | "b" }\ny = { "1" }',
    'pair = { x ~ x }\nmixed = { (x ~ y) ~ (x ~ y) }\nahead = { &x ~ x }\npushed = { PUSH(x) ~ x }\nx = { "a" | "k" | "v" }\ny = { "1" | "2" }',
    'r = { (x ~ y | y)* ~ (x | y ~ x)? }\nx = { "a" }\ny = { "b" }',
]

NAMES_POOL = ["a", "b", "c"]
POOL_DEFS = [
    ['a = { "a" }', 'a = { "a" | "b" }', 'a = @{ "a"+ }', 'a = _{ "a" }', 'a = ${ "a" ~ "x"? }'],
    ['b = { "b" }', 'b = _{ "b" | "c" }', 'b = { "a" ~ "b" }', 'b = !{ "b" ~ "b"? }', 'b = { "b" ~ a? }'],
    ['c = { "c" }', 'c = { a ~ b? }', 'c = _{ a | b }', 'c = @{ "a" | "c" }', 'c = { (a | "c") ~ b* }'],
]
EXTRA_LEAVES = ['"x"', '"a"', 'ANY', 'ASCII_DIGIT', 'SOI', 'EOI', 'ASCII_ALPHA', 'LETTER', 'NEWLINE']


def biased_expr(rng, depth, names, stacky):
    r = rng.below(100)
    if depth <= 0 or r < 22:
        k = rng.below(100)
        if k < 78:
            return rng.choice(names)
        if k < 90:
            return rng.choice(EXTRA_LEAVES[:2])
        return rng.choice(EXTRA_LEAVES)
    if r < 45:
        n = 2 + rng.below(3)
        return "(" + " ~ ".join(biased_expr(rng, depth - 1, names, stacky) for _ in range(n)) + ")"
    if r < 62:
        n = 2 + rng.below(3)
        return "(" + " | ".join(biased_expr(rng, depth - 1, names, stacky) for _ in range(n)) + ")"
    inner = biased_expr(rng, depth - 1, names, stacky)
    if r < 72:
        return inner + "?"
    if r < 82:
        return inner + "*"
    if r < 86:
        return inner + "+"
    if r < 88:
        return inner + rng.choice(["{2}", "{1,}", "{,2}", "{1,2}"])
    if r < 93:
        return "&" + inner
    if r < 95:
        return "!" + inner
    if stacky:
        return "PUSH(" + inner + ")"
    return "(" + inner + ")"


def biased_grammar(rng):
    """1-3 top rules over the pool a, b, c (defined in several kinds); later top rules may be mentioned by earlier ones"""
    n = 1 + rng.below(3)
    tops = ["r%d" % i for i in range(n)]
    stacky = rng.chance(1, 2)
    lines = []
    ws = rng.below(5)
    if ws == 1:
        lines.append('WHITESPACE = _{ " " }')
    elif ws == 2:
        lines.append('WHITESPACE = { " " }')
    for i, nm in enumerate(tops):
        mod = rng.choice(["", "", "", "_", "$", "!", "@"])
        names = NAMES_POOL + tops[i + 1:]
        if ws in (1, 2) and rng.chance(1, 8):
            names = names + ["WHITESPACE"]
        lines.append("%s = %s{ %s }" % (nm, mod, biased_expr(rng, 2 + rng.below(3), names, stacky)))
    for defs in POOL_DEFS:
        lines.append(rng.choice(defs))
    return "\n".join(lines)


# ------------------------------------------------------------ model getters (Getter_drv, `grammar` requests)
def _ident_name(atom, names, undefined_skip):
    k, v = atom.split(":", 1)
    if k == "r":
        return names[int(v) - 1]
    if k == "u":
        return grammar.unicode_names()[int(v)]
    if v == "UNDEFINED_SKIP":
        return undefined_skip
    return v


def _conv_type(t, names, us):
    if t[0] == "ref":
        return ["ref", _ident_name(t[1], names, us), t[2]]
    return [t[0]] + [_conv_type(x, names, us) for x in t[1:]]


def model_getters(items):
    """items: [(gid, Result)] -> {gid: None | {rule: {name: (type, path, spec_type)}}}; None = identifiers the model
    cannot resolve (undefined rules).  `?UNDEFINED_SKIP` as name when both WHITESPACE and COMMENT are undefined."""
    ok, exe = build.build_extraction("Getter")
    if not ok:
        raise RuntimeError(exe)
    lines, meta = [], {}
    for gid, res in items:
        line, names = grammar.model_request(gid, res, "opt")
        meta[gid] = names
        if line is not None:
            lines.append(line)
    p = subprocess.run([exe], input="\n".join(lines) + "\n", capture_output=True, text=True)
    out = {gid: None for gid, _ in items}
    for ln in p.stdout.split("\n"):
        if not ln.startswith("(result "):
            continue
        sx = gendump.parse_sexp(ln)
        gid = sx[1]
        names = meta[gid]
        defined = set(names)
        und = [n for n in ("WHITESPACE", "COMMENT") if n not in defined]
        d = {}
        for r in sx[2:]:
            rn = names[int(r[0]) - 1]
            g = {}
            for it in r[1:]:
                us = und[0] if len(und) == 1 else "?UNDEFINED_SKIP"
                nm = _ident_name(it[0], names, us)
                g[nm] = (_conv_type(it[1], names, us), it[2], None if it[3] == "none" else _conv_type(it[3], names, us))
            d[rn] = g
        out[gid] = d
    return out


TAG_HAND = [
    'pair = { x ~ "=" ~ #value = x }\nlist = { x ~ ("," ~ #more = x)* ~ ";" ~ y }\nahead = { &(#peeked = (x ~ y)) ~ x ~ y }\n'
    'opt = { (#first = x ~ ":")? ~ x }\nx = { "a" | "b" | "c" }\ny = { "1" }',
    'r = { #a = (x ~ y) ~ (#b = x | #c = (y ~ x))* ~ #d = x? }\nx = { "a" }\ny = { "b" }',
]


def corpus_texts(seed, n_random):
    rng = Rng(seed).fork("v1g")
    texts = list(BIASED_HAND) + list(grammar.HAND) + grammar.repo_grammars() + [gencore.nesting_grammar(True, True, 2)]
    for i in range(n_random):
        if i % 4 == 3:
            texts.append(grammar.rand_grammar(rng.fork("g%d" % i)))
        else:
            texts.append(biased_grammar(rng.fork("b%d" % i)))
    return texts


def type_class(t):
    """shape of a getter type for the histogram"""
    if t[0] == "ref":
        return "ref"
    if t[0] == "tuple":
        return "tuple%d" % min(len(t) - 1, 5)
    return t[0] + "<" + type_class(t[1]) + ">"


def v1g(ctx, n_random):
    """returns (#grammars compared, #getters compared)"""
    gendump.build()
    texts = corpus_texts(ctx.seed, n_random)
    ngr = nget = bad = excl = 0
    passes = [({"emit_rule_reference": "true"}, texts, None), ({"emit_rule_reference": "true", "box_only_if_needed": "true"}, texts, None),
              # node tags (cargo feature grammar-extras): with emit_tagged_node_reference off a tag is transparent for the rule accessors
              ({"emit_rule_reference": "true"}, TAG_HAND, "grammar-extras")]
    for oi, (opts, texts, feat) in enumerate(passes):
        gs = [("w%d_%d" % (oi, i), t, opts) for i, t in enumerate(texts)]
        res = gendump.dump(gs, features=feat)
        valid = [(gid, res[gid]) for gid, _, _ in gs if res[gid].meta_ok and res[gid].gen_ok]
        mg = model_getters(valid)
        for gid, r in valid:
            text = texts[int(gid.split("_")[1])]
            if r.anomalies():
                bad += 1
                ctx.violation("V1g: the generator emits something the extractor cannot classify (%s)" % (r.anomalies()[:2],),
                              {"grammar": text, "options": opts, "check": "V1g"}, found_input=False)
                continue
            m = mg.get(gid)
            if m is None:
                excl += 1           # an identifier that is neither defined nor built-in: the generated code does not compile
                continue
            ngr += 1
            real = r.getters()
            boxed_of = {n: b for (n, a, e, b, t, x) in r.typed_rule_list()}
            for rn in [n for (n, k, e) in r.ast("ast_opt")]:
                rg = real.get(rn)
                mgr = m.get(rn, {})
                if "?UNDEFINED_SKIP" in mgr:
                    excl += 1
                    continue
                if rg is None:
                    rg = {"<no inherent impl>": None}
                diffs = []
                for x in sorted(set(rg) | set(mgr)):
                    a = rg.get(x)
                    b = mgr.get(x)
                    nget += 1
                    if a is None or b is None or a["type"] != b[0] or gendump.show_sexp(a["path"]) != gendump.show_sexp(b[1]):
                        diffs.append((x, None if a is None else (gendump.show_sexp(a["type"]), gendump.show_sexp(a["path"])),
                                      None if b is None else (gendump.show_sexp(b[0]), gendump.show_sexp(b[1]))))
                        continue
                    if b[2] != b[0]:
                        diffs.append((x, "model: spec_type differs from gtype (theorem C16_type)", gendump.show_sexp(b[2] or "none")))
                    want_boxed = "1" if boxed_of.get(rn) == "true" else "0"
                    if a["boxed"] != want_boxed:
                        diffs.append((x, "getter dereferences a Box (boxed %s) but the rule is emitted with boxed = %s" % (a["boxed"], boxed_of.get(rn)), None))
                    ctx.count("v1g_type=%s" % type_class(a["type"]))
                if diffs:
                    bad += 1
                    if bad <= 4:
                        ctx.violation("V1g: getters of rule %s emitted by the real generator differ from Model/Getter.v getter_of: %s"
                                      % (rn, repr(diffs[:2])[:400]),
                                      {"grammar": text, "options": opts, "rule": rn, "check": "V1g",
                                       "diffs (getter, real (type, path), model (type, path))": diffs[:6],
                                       "broken": "T1/V1g extract(generator(g)).getters = getter_of(g)"}, found_input=False)
    ctx.coverage["v1g_grammars_compared"] = ngr
    ctx.coverage["v1g_getters_compared"] = nget
    ctx.coverage["v1g_mismatching_rules"] = bad
    ctx.coverage["v1g_excluded_undefined_identifier"] = excl
    return ngr, nget, bad


def strip_restore(e):
    if isinstance(e, (list, tuple)):
        if len(e) == 2 and e[0] == "restore":
            return strip_restore(e[1])
        return [strip_restore(x) for x in e]
    return e


def raw_getters_same(ctx, n_random):
    """pest_optimizer = false must only change how rules are translated where the optimizer rewrote them: for every rule whose
    un-optimized expression IS the optimized one (up to RestoreOnErr), the accessors emitted on the two generator paths
    (generator/src/graph/optimized_rule.rs and its twin graph/rule.rs) are the same -- type and path, compared code against code"""
    gendump.build()
    texts = corpus_texts(ctx.seed, n_random)
    a = gendump.dump([("p%d" % i, t, {"emit_rule_reference": True}) for i, t in enumerate(texts)])
    b = gendump.dump([("q%d" % i, t, {"emit_rule_reference": True, "pest_optimizer": False}) for i, t in enumerate(texts)])
    n = bad = 0
    for i, t in enumerate(texts):
        ra, rb = a["p%d" % i], b["q%d" % i]
        if not (ra.meta_ok and ra.gen_ok and rb.meta_ok and rb.gen_ok):
            continue
        if ra.anomalies() or rb.anomalies():
            continue
        opt = {nm: strip_restore(e) for (nm, k, e) in (ra.ast("ast_opt") or [])}
        raw = {nm: e for (nm, k, e) in (rb.ast("ast_raw") or [])}
        ga, gb = ra.getters(), rb.getters()
        for rn in opt:
            if rn not in raw or opt[rn] != raw[rn]:
                continue            # the optimizer rewrote this rule (or it has counted repetitions): different types are expected
            n += 1
            xa = {x: (gendump.show_sexp(v["type"]), gendump.show_sexp(v["path"])) for x, v in (ga.get(rn) or {}).items()}
            xb = {x: (gendump.show_sexp(v["type"]), gendump.show_sexp(v["path"])) for x, v in (gb.get(rn) or {}).items()}
            if xa != xb:
                bad += 1
                if bad <= 3:
                    diff = sorted(set(xa.items()) ^ set(xb.items()))[:4]
                    ctx.violation("accessors of rule %s differ between the optimized and the un-optimized generator path although the "
                                  "optimizer left the rule unchanged: %s" % (rn, repr(diff)[:300]),
                                  {"grammar": t, "rule": rn, "options": [{"emit_rule_reference": True}, {"emit_rule_reference": True, "pest_optimizer": False}],
                                   "optimized_path": xa, "raw_path": xb, "broken": "accessors(optimized_rule.rs) = accessors(rule.rs) on unchanged rules"},
                                  found_input=False)
    ctx.coverage["raw_vs_opt_getter_rules_compared"] = n
    ctx.coverage["raw_vs_opt_getter_mismatches"] = bad
    return n, bad
