"""C17 harness: generated `arity` crate (ChoiceN / SeqN for every arity 2..16, repetitions, leaves) whose runner
calls the public accessors of the parsed values, the matching job files for the accessor model driver
(ocaml/Access_drv.ml) and an independent string-level oracle in Python.

One cargo package per tier, one bin per shard (= one arity, or the leaf/repetition catalogue).  Arities
12..16 are instantiated inside the generated module with `pest_typed::choices!` / `pest_typed::seq!` exactly as
generator/src/graph.rs:741-799 emits them (12 is covered twice: library type and macro instance)."""
import os
import subprocess
import unicodedata

from .common import VERIF, REPO, CACHE, NCPU, log, run, sha
from . import build, rtcat
from .texpr import Env, S, I, R, seq, choice, opt, rep, push, RustGen

STATIC = os.path.join(VERIF, "harness", "arity_static")
SKIP = S(' ')                     # the grammar's skip: AtomicRepeat<Str<" ">>
QUICK_ARITIES = [2, 3, 5, 12, 13, 16]
ALL_ARITIES = list(range(2, 17))


# ------------------------------------------------------------------------------------------------ shapes
class Shape:
    def __init__(self, kind, expr, inputs, n=0, family="", path=()):
        self.kind = kind          # 'choice' | 'seq' | 'rep' | 'leaf'
        self.expr = expr
        self.inputs = inputs      # list of (form, bytes, a, b)
        self.n = n
        self.family = family
        self.path = tuple(path)   # leaf: indices through get_matched() of nested sequences
        self.sid = None

    def leaf_expr(self):
        e = self.expr
        for j in self.path:
            e = e[2][j]
        return e


class Shard:
    def __init__(self, name, shapes, macro_from=13):
        self.name = name
        self.shapes = shapes
        self.macro_from = macro_from
        self.env = Env(name, skip=SKIP, rules=[], shapes=[])
        names = set()
        for sh in shapes:
            collect_preds(sh.expr, names)
        self.env.pred_names = sorted(names)
        self.env.preds = {n: [] for n in names}
        for i, sh in enumerate(shapes):
            sh.sid = "%s.s%d" % (name, i)


def collect_preds(e, out):
    if isinstance(e, str):
        return
    if e[0] == 'charby':
        out.add(e[1])
    for x in e[1:]:
        if isinstance(x, tuple):
            collect_preds(x, out)
        elif isinstance(x, list):
            for y in x:
                if isinstance(y, tuple):
                    collect_preds(y, out)


def strs(*xs):
    return [('str', x.encode() if isinstance(x, str) else x, 0, 0) for x in xs]


def embed(inputs):
    """the same texts as sub-inputs: Span(q + s + q, 1, 1 + len(s))"""
    return [('span', b'q' + s + b'q', 1, 1 + len(s)) for (_, s, _, _) in inputs]


def all_strings(alpha, n):
    import itertools
    out = []
    for k in range(n + 1):
        for t in itertools.product(alpha, repeat=k):
            out.append(''.join(t))
    return out


def choice_shapes(n, tier):
    out = []
    # cp: alternative j = "a"^(n-j): on a^m every alternative j >= n-m matches, the first of them must win
    alts = [S('a' * (n - j)) for j in range(n)]
    ins = strs(*(['a' * m for m in range(n + 2)] + ['b'] + ['a' * m + 'b' for m in range(1, n + 1)]))
    out.append(Shape('choice', choice(*alts), ins + embed(ins[:4]), n, 'cp'))
    # cr: overlapping character ranges: alternative j = [chr(a+n-1-j) .. z]
    alts = [R(chr(ord('a') + n - 1 - j), 'z') for j in range(n)]
    ins = strs(*([chr(ord('a') + m) for m in range(n + 2)] + ['`', '', 'é', 'zz', 'A']))
    out.append(Shape('choice', choice(*alts), ins, n, 'cr'))
    # cx: mixed Str / Insens with literals that are told apart only at later positions:
    #     r = n-1-j;  r even: "a"^(r/2+1);  r odd: "a"^((r+1)/2) + "b";  odd j are case-insensitive
    alts = []
    for j in range(n):
        r = n - 1 - j
        lit = 'a' * (r // 2 + 1) if r % 2 == 0 else 'a' * ((r + 1) // 2) + 'b'
        alts.append(I(lit) if j % 2 == 1 else S(lit))
    m_hi = n // 2 + 2
    texts = []
    for m in range(m_hi + 1):
        for base in ('a' * m, 'a' * m + 'b'):
            texts += [base, base.upper(), base.capitalize(), base[:-1] + base[-1:].upper()]
    if tier != 'quick':
        texts += all_strings('aAb', 5)
    seen, uniq = set(), []
    for t in texts:
        if t not in seen:
            seen.add(t)
            uniq.append(t)
    out.append(Shape('choice', choice(*alts), strs(*uniq), n, 'cx'))
    return out


def random_choice_shapes(n, tier, rng):
    """seeded: alternatives drawn from Str / Insens / CharRange / two-element sequences over {a,b}; every string over {a,b,A}"""
    out = []
    def word():
        return ''.join(rng.choice('ab') for _ in range(1 + rng.below(3)))
    def alt():
        k = rng.below(6)
        if k <= 1:
            return S(word())
        if k == 2:
            return I(word())
        if k == 3:
            lo = rng.choice('aAb')
            return R(lo, rng.choice([c for c in 'aAbz' if c >= lo]))
        if k == 4:
            return seq('off', S(word()), I(word()))
        return seq('off', R('a', 'b'), S(word()))
    ins = strs(*all_strings('abA', 3 if tier == 'quick' else 4))
    for _ in range(1 if tier == 'quick' else 3):
        out.append(Shape('choice', choice(*[alt() for _ in range(n)]), ins, n, 'rnd'))
    return out


MIX = [S('x'), R('a', 'c'), 'any', I('aB'), opt(S('y')), rep('off', 0, 2, S('z'))]
MIX_A = ['x', 'b', 'é', 'Ab', 'y', 'zz']
MIX_B = ['x', 'a', 'Q', 'AB', '', 'z']
MIX_C = ['x', 'c', '中', 'ab', 'y', '']


def seq_shapes(n, tier):
    out = []
    abc = 'abcdefghijklmnopqrstuvwxyz'
    # sq: n same-typed elements, no skipping
    ins = strs(abc[:n], abc[:n - 1], abc[:n] + 'x', abc[:n // 2] + 'Z' + abc[n // 2:n], abc[::-1][:n], '')
    out.append(Shape('seq', seq('off', *[R('a', 'z')] * n), ins + embed(ins[:2]), n, 'sq'))
    # sw: the same with implicit skipping of blanks: element j is preceded by j mod 3 blanks
    def spaced(letters, f):
        return ''.join(' ' * f(j) + c for j, c in enumerate(letters))
    ins = strs(spaced(abc[:n], lambda j: j % 3), abc[:n], spaced(abc[:n], lambda j: 1 if j else 0) + '  ',
               ' ' + abc[:n], spaced(abc[:n - 1], lambda j: j % 2) + ' ', spaced(abc[::-1][:n], lambda j: (j + 1) % 3 if j else 0))
    out.append(Shape('seq', seq('on', *[R('a', 'z')] * n), ins + embed(ins[:1]), n, 'sw'))
    # sm: heterogeneous elements
    es = [MIX[j % len(MIX)] for j in range(n)]
    def build(var):
        return ''.join(var[j % len(MIX)] for j in range(n))
    a, b, c = build(MIX_A), build(MIX_B), build(MIX_C)
    ins = strs(a, b, c, a[:-1] if not a.endswith('y') else a[:-2], 'x', b + 'zz')
    out.append(Shape('seq', seq('off', *es), ins, n, 'sm'))
    return out


def rep_shapes(tier):
    L = 4 if tier == 'quick' else 5
    words = all_strings('ab ', L) + ['a  b a', 'ab a  ab', 'b']
    out = [
        Shape('rep', rep('on', 0, None, R('a', 'z')), strs(*words), 0, 'rp'),
        Shape('rep', rep('on', 0, None, choice(S('ab'), S('a'))), strs(*words), 0, 'rp'),
        Shape('rep', rep('off', 1, 3, 'any'), strs(*(all_strings(['a', 'é', '中'], 4) + ['', 'a😀b'])), 0, 'rp'),
        Shape('rep', rep('on', 2, 4, choice(I('ab'), R('a', 'b'))), strs(*(words + ['AB aB', 'Ab ab AB ab ab'])), 0, 'rp'),
    ]
    return out


LEAF_CHARS = ['a', 'm', 'z', 'A', 'Z', '{', '`', '0', ' ', 'é', 'à', 'ß', 'Σ', '中', '丮', '😀', '\n', '\r', '\t', '"', "'", '\\', '#']


def leaf_shapes(tier):
    cs = LEAF_CHARS
    one = strs(*([c for c in cs] + [c + 'a' for c in cs] + ['']))
    out = []
    def leaf(e, ins, path=(), sub=True):
        out.append(Shape('leaf', e, ins + (embed(ins) if sub else []), 0, 'lf', path))
    leaf(R('a', 'z'), one)
    leaf(R('à', '中'), one)
    leaf(R('\x00', '\U0010ffff'), one)
    leaf('any', one)
    for p in ('ALPHABETIC', 'UPPERCASE_LETTER', 'LOWERCASE_LETTER', 'DECIMAL_NUMBER', 'WHITE_SPACE', 'EMOJI', 'HAN'):
        leaf(('charby', p), one)
    spell = ['ab', 'aB', 'Ab', 'AB', 'abx', 'ABab', 'a', 'ba', 'aé', '', 'áb', 'ac']
    leaf(I('aB'), strs(*spell))
    leaf(I('éx'), strs('éx', 'éX', 'Éx', 'ÉX', 'éxx', 'ex', 'é'))
    leaf(I(''), strs('', 'a'))
    leaf(I('a-Z z'), strs('a-z z', 'A-Z Z', 'a-Z z!', 'a_z z'))
    nl = ['\r\n', '\n', '\r', '\r\r\n', '\n\r', '\r\nx', '\rx', 'x', '', '\n\n']
    leaf('newline', strs(*nl))
    leaf(seq('off', 'newline', 'newline'), strs('\r\r\n', '\r\n\r', '\n\r\n', '\r\n\r\n', '\r\n'), path=(0,))
    leaf(seq('off', 'newline', 'newline'), strs('\r\r\n', '\r\n\r', '\n\r\n', '\r\n\r\n', '\r\n'), path=(1,))
    pk = ['abab', 'aa', 'aba', 'aaa', 'a', 'ab', 'abaab', '']
    leaf(seq('off', push(choice(S('ab'), S('a'))), 'peek'), strs(*pk), path=(1,))
    leaf(seq('off', push('any'), 'peek'), strs('éé', '中中x', 'é中', 'aa', '😀😀'), path=(1,))
    leaf(seq('on', push(I('aB')), 'peek'), strs('ab ab', 'Ab  Ab', 'AB ab', 'abab'), path=(1,))
    leaf(seq('off', push(I('aB')), 'pop'), strs('AbAb', 'Abab', 'abab', 'ABAB', 'ab', 'aBaBx'), path=(1,))
    leaf(seq('off', push('any'), S('-'), 'pop'), strs('é-é', 'a-a', 'a-b', '中-中x', '😀-😀'), path=(2,))
    leaf(seq('off', push(S('')), 'pop'), strs('', 'x'), path=(1,))
    leaf(seq('off', push(S('a')), push(S('b')), 'peekall'), strs('abba', 'abab', 'abb', 'abbax'), path=(2,))
    leaf(seq('off', push(S('a')), push(R('b', 'c')), 'popall'), strs('abba', 'acca', 'acba', 'abb'), path=(2,))
    # skip-until: str form only (the sub-input behaviour of skip_until is the subject of another property)
    su = ['xxab', 'xc', 'xxx', 'ab', '', 'xéab', 'abc', 'xa', 'éé中c中']
    leaf(('skipuntil', [b'ab', b'c']), strs(*su), sub=False)
    leaf(seq('off', ('skipuntil', ['é'.encode()]), 'any'), strs('aaé', 'é', 'aa', '中é中'), path=(0,), sub=False)
    sk = ['ab', 'aé', 'é中x', 'a', '', '中', '😀a😀', 'abc']
    for k in (0, 1, 2, 3):
        leaf(('skipchars', k), strs(*sk))
    return out


def make_shards(tier, seed=1):
    from .common import Rng
    ar = QUICK_ARITIES if tier == 'quick' else ALL_ARITIES
    shards = []
    for n in ar:
        rng = Rng(seed).fork("arity%d" % n)
        shards.append(Shard('a%d' % n, choice_shapes(n, tier) + seq_shapes(n, tier) + random_choice_shapes(n, tier, rng), macro_from=13))
    if 12 in ar:
        # arity 12 once more, instantiated by macro as the generator does (`if *item >= 12`)
        rng = Rng(seed).fork("arity12")
        shards.append(Shard('m12', choice_shapes(12, tier) + seq_shapes(12, tier) + random_choice_shapes(12, tier, rng), macro_from=12))
    # the leaf / repetition catalogue goes first: its (simpler) shapes are reported first when something breaks
    shards.insert(0, Shard('lf', leaf_shapes(tier) + rep_shapes(tier)))
    return shards


# ------------------------------------------------------------------------------------------------ Rust generation
def arities_of(e, seqs, chs):
    if isinstance(e, str):
        return
    if e[0] == 'seq':
        seqs.add(len(e[2]))
        for x in e[2]:
            arities_of(x, seqs, chs)
    elif e[0] == 'choice':
        chs.add(len(e[1]))
        for x in e[1]:
            arities_of(x, seqs, chs)
    else:
        for x in e[1:]:
            if isinstance(x, tuple):
                arities_of(x, seqs, chs)


def chain(n, first, rest='else_if', last='else_then'):
    parts = []
    for k in range(n):
        m = first if k == 0 else (last if k == n - 1 else rest)
        parts.append('.%s(cl!(calls, %d))' % (m, k))
    return ''.join(parts)


def choice_code(n):
    acc = ' '.join('if let Some(x) = node._%d() { v.push(format!("%d={:?}", x)); }' % (k, k) for k in range(n))
    arms = ' '.join('x%d => arm!(calls, %d, x%d),' % (k, k, k) for k in range(n))
    def grp(name, expr):
        return ('    let f_%s = ar::guard(|| { let calls = RefCell::new(Vec::<usize>::new()); let r: String = %s; '
                'format!("{};calls={:?}", r, calls.borrow()) });\n' % (name, expr))
    code = '    let acc = ar::guard(|| { let mut v: Vec<String> = vec![]; %s format!("[{}]", v.join(";")) });\n' % acc
    code += grp('if', 'node' + chain(n, 'if_then'))
    code += grp('rf', 'node.reference()' + chain(n, 'else_if'))
    code += grp('ci', 'node.clone()' + chain(n, 'consume_if_then'))
    code += grp('co', 'node.clone().consume()' + chain(n, 'else_if'))
    code += grp('mc', 'pest_typed_derive::match_choices!{ &node { %s } }' % arms)
    code += '    format!("{}|ACC:{}|IF:{}|RF:{}|CI:{}|CO:{}|MC:{}", p, acc, f_if, f_rf, f_ci, f_co, f_mc)\n'
    return code


def seq_code(n):
    def comps(v):
        return ', '.join('format!("{:?}", %s.%d)' % (v, k) for k in range(n))
    def grp(name, expr):
        return '    let f_%s = ar::guard(|| { let m = %s; let v: Vec<String> = vec![%s]; v.join(";") });\n' % (name, expr, comps('m'))
    code = grp('gm', 'node.get_matched()') + grp('ar', 'node.as_ref()') + grp('im', 'node.clone().into_matched()')
    code += grp('ga', 'node.get_all()') + grp('ia', 'node.clone().into_all()')
    code += '    format!("{}|GM:{}|AR:{}|IM:{}|GA:{}|IA:{}", p, f_gm, f_ar, f_im, f_ga, f_ia)\n'
    return code


def rep_code():
    def grp(name, expr):
        return '    let f_%s = ar::guard(|| { %s.map(|x| format!("{:?}", x)).collect::<Vec<String>>().join(";") });\n' % (name, expr)
    code = grp('it', 'node.iter_matched()') + grp('ii', 'node.clone().into_iter_matched()')
    code += grp('il', 'node.iter_all()') + grp('ili', 'node.clone().into_iter_all()')
    code += '    format!("{}|IT:{}|II:{}|IL:{}|ILI:{}", p, f_it, f_ii, f_il, f_ili)\n'
    return code


def leaf_field_kind(e):
    if e == 'any' or e[0] in ('range', 'charby'):
        return 'c'
    if e == 'newline':
        return 'k'
    if not isinstance(e, str) and e[0] == 'insens':
        return 's'
    return 'sp'


def leaf_code(sh):
    nav = 'node' + ''.join('.get_matched().%d' % j for j in sh.path)
    k = leaf_field_kind(sh.leaf_expr())
    if k == 'sp':
        body = 'ar::span_dbg(&l.span)'
    else:
        body = 'format!("%s:{:?}", l.content)' % k
    ref = '&' if not sh.path else ''
    return ('    let f_lf = ar::guard(|| { let l = %s%s; %s });\n    format!("{}|LF:{}", p, f_lf)\n' % (ref, nav, body))


MODULE_TMPL = '''// generated by vlib/arity.py -- shard %(name)s
#![allow(non_camel_case_types, dead_code, unused_imports, unused_variables, clippy::all)]
use pest_typed::predefined_node::*;
use pest_typed::predefined_node as pn;
%(lib_uses)s
use pest_typed::tracker::Tracker;
use pest_typed::{AsInput, Input, Span, Stack, TypedNode};
use std::cell::RefCell;
use crate::ar;
use crate::{arm, cl};

#[derive(Clone, Copy, Debug, Eq, Hash, Ord, PartialEq, PartialOrd)]
pub enum Rule { EOI }

pub mod %(wmod)s {
%(wrappers)s
}
// arities instantiated the way generator/src/graph.rs does for `item >= 12`
%(big)s
/// what `match_choices!` expects to find in scope
pub mod generics {
%(generics)s
}
pub type SkipT<'i> = %(skip)s;

%(shape_types)s

%(fns)s

pub const IDS: &[&str] = &[%(ids)s];

pub fn run(shape: usize, c: &ar::Case) -> String {
    match shape {
%(arms)s
        _ => unreachable!(),
    }
}
'''

FN_TMPL = '''fn run_s%(i)d<'i, I: Input<'i>>(input: I) -> String {
    let mut parsed = None;
    let p = ar::guard(|| {
        let mut stack = Stack::new();
        let mut tr = Tracker::<'i, Rule>::new(input);
        match <S%(i)d<'i> as TypedNode<'i, Rule>>::try_parse_partial_with(input, &mut stack, &mut tr) {
            Some((rest, node)) => {
                let s = format!("P:ok@{}={:?}", rest.byte_offset(), node);
                parsed = Some(node);
                s
            }
            None => "P:fail".to_string(),
        }
    });
    let node = match parsed {
        Some(n) => n,
        None => return p,
    };
%(body)s}
'''

MAIN_TMPL = '''// generated by vlib/arity.py
#[path = "ar.rs"]
#[macro_use]
mod ar;
#[path = "%(name)s.rs"]
mod %(name)s;

fn main() {
    use std::io::{BufRead, Write};
    let stdin = std::io::stdin();
    let stdout = std::io::stdout();
    let mut out = std::io::BufWriter::new(stdout.lock());
    let mut cur = 0usize;
    // silence panic messages: panics are caught and reported as PANIC
    std::panic::set_hook(Box::new(|_| {}));
    for line in stdin.lock().lines() {
        let line = line.unwrap();
        let line = line.trim();
        if line.starts_with("(for ") {
            cur = line[5..line.len() - 1].parse().unwrap();
            continue;
        }
        if !line.starts_with("(in ") {
            continue;
        }
        let inner = &line[4..line.len() - 1];
        let parts: Vec<&str> = inner.split_whitespace().collect();
        let c = ar::Case { form: parts[0].to_string(), hex: parts[1].to_string(), s: ar::unhex(parts[1]), a: parts[2].parse().unwrap(), b: parts[3].parse().unwrap() };
        writeln!(out, "{}|{}|{}|{}|{}|{}", %(name)s::IDS[cur], c.form, c.hex, c.a, c.b, %(name)s::run(cur, &c)).unwrap();
    }
    out.flush().unwrap();
}
'''


def rust_module(shard):
    g = RustGen(shard.env)
    skip_ty = 'AtomicRepeat<%s>' % g.ty(SKIP)
    types, fns, arms = [], [], []
    seqs, chs = set(), set()
    for i, sh in enumerate(shard.shapes):
        types.append("pub type S%d<'i> = %s;" % (i, g.ty(sh.expr)))
        arities_of(sh.expr, seqs, chs)
        if sh.kind == 'choice':
            body = choice_code(sh.n)
        elif sh.kind == 'seq':
            body = seq_code(sh.n)
        elif sh.kind == 'rep':
            body = rep_code()
        else:
            body = leaf_code(sh)
        fns.append(FN_TMPL % dict(i=i, body=body))
        arms.append('        %d => match c.form.as_str() { "str" => run_s%d(c.s.as_str().as_input()), '
                    '_ => run_s%d(Span::new(&c.s, c.a, c.b).unwrap().as_input()) },' % (i, i, i))
    big, gen, uses = [], [], []
    # library arities are imported by name, as the generated `generics` module does (`pub use pest_typed::choices::ChoiceN;`)
    for n in sorted(x for x in seqs if x < shard.macro_from):
        uses.append('use pest_typed::sequence::Seq%d;' % n)
    for n in sorted(x for x in chs if x < shard.macro_from):
        uses.append('use pest_typed::choices::Choice%d;' % n)
        gen.append('    pub use pest_typed::choices::Choice%d;' % n)
    for n in sorted(x for x in seqs if x >= shard.macro_from):
        big.append('pest_typed::seq!(Seq%d, %dusize, %s);' % (n, n, ' '.join('T%d, %d,' % (i, i) for i in range(n))))
    for n in sorted(x for x in chs if x >= shard.macro_from):
        big.append('pest_typed::choices!(Choice%d, choice%d, %dusize, %s);' % (n, n, n, ' '.join('T%d, _%d,' % (i, i) for i in range(n))))
        gen.append('    pub use super::Choice%d;' % n)
    wmod = g.wrapper(b'unused').split('::')[0]     # whatever texpr.RustGen calls its wrapper module
    return MODULE_TMPL % dict(
        name=shard.name, wmod=wmod, lib_uses='\n'.join(uses), wrappers='\n'.join('    ' + w for w in g.wrappers), big='\n'.join(big), generics='\n'.join(gen),
        skip=skip_ty, shape_types='\n'.join(types), fns='\n'.join(fns),
        ids=', '.join('"%s"' % sh.sid for sh in shard.shapes), arms='\n'.join(arms))


def repo_tag():
    return "" if REPO == "/repo" else "-" + sha(REPO)[:8]


def gen_crate(tier, shards):
    d = os.path.join(CACHE, "gen", "arity_%s%s" % (tier, repo_tag()))
    src = os.path.join(d, "src")
    os.makedirs(src, exist_ok=True)
    keep = {"ar.rs", "preds.rs"}
    rtcat.write_if_changed(os.path.join(src, "ar.rs"), open(os.path.join(STATIC, "ar.rs")).read())
    bins = []
    for sh in shards:
        keep.add("%s.rs" % sh.name)
        keep.add("main_%s.rs" % sh.name)
        rtcat.write_if_changed(os.path.join(src, "%s.rs" % sh.name), rust_module(sh))
        rtcat.write_if_changed(os.path.join(src, "main_%s.rs" % sh.name), MAIN_TMPL % dict(name=sh.name))
        bins.append('[[bin]]\nname = "%s"\npath = "src/main_%s.rs"\n' % (sh.name, sh.name))
    names = sorted({n for s in shards for n in s.env.pred_names})
    arms = "\n".join('            "%s" => pest::unicode::%s(c),' % (n, n) for n in names)
    rtcat.write_if_changed(os.path.join(src, "preds.rs"), rtcat.PREDS_TMPL % arms)
    bins.append('[[bin]]\nname = "preds"\npath = "src/preds.rs"\n')
    for f in os.listdir(src):
        if f not in keep:
            os.remove(os.path.join(src, f))
    cargo = '''[package]
name = "arity_%s"
version = "0.0.0"
edition = "2021"

[workspace]

[dependencies]
pest_typed = { path = "%s/main" }
pest_typed_derive = { path = "%s/derive" }
pest = "=2.7.14"

[profile.dev]
debug = false
opt-level = 0
incremental = false

%s''' % (tier, REPO, REPO, "\n".join(bins))
    rtcat.write_if_changed(os.path.join(d, "Cargo.toml"), cargo)
    return d


# ------------------------------------------------------------------------------------------------ oracle (T3)
def rust_escape(c, quote):
    o = ord(c)
    if o == 0:
        return "\\0"
    if c == '\t':
        return "\\t"
    if c == '\n':
        return "\\n"
    if c == '\r':
        return "\\r"
    if c == '\\':
        return "\\\\"
    if c == quote:
        return "\\" + quote
    if o < 32 or o == 127 or 0x80 <= o < 0xA0:
        return "\\u{%x}" % o
    return c


def dbg_char(c):
    return "'" + rust_escape(c, "'") + "'"


def dbg_str(b):
    return '"' + ''.join(rust_escape(c, '"') for c in b.decode('utf8')) + '"'


EMOJI_YES = set('😀#*0123456789©®')
PRED_PY = {
    'ALPHABETIC': lambda c: c.isalpha(),
    'UPPERCASE_LETTER': lambda c: unicodedata.category(c) == 'Lu',
    'LOWERCASE_LETTER': lambda c: unicodedata.category(c) == 'Ll',
    'DECIMAL_NUMBER': lambda c: unicodedata.category(c) == 'Nd',
    'WHITE_SPACE': lambda c: c in ' \t\n\r\x0b\x0c\x85\xa0',
    'EMOJI': lambda c: c in EMOJI_YES,
    'HAN': lambda c: unicodedata.name(c, '').startswith('CJK UNIFIED IDEOGRAPH'),
}


def lower_ascii(b):
    return bytes(x + 32 if 65 <= x <= 90 else x for x in b)


def span_dbg(s, a, b):
    return 'Span { str: %s, start: %d, end: %d }' % (dbg_str(s[a:b]), a, b)


class Cx:
    def __init__(self, s, start, end):
        self.s, self.start, self.end = s, start, end


def first_char(cx, pos):
    if pos >= cx.end:
        return None
    c = cx.s[pos:cx.end].decode('utf8')[0]
    return c, len(c.encode('utf8'))


def o_skip(cx, pos):
    n = 0
    while cx.s[pos + n:cx.end].startswith(b' '):
        n += 1
    return pos + n, 'AtomicRepeat { content: [%s] }' % ', '.join(['Str'] * n)


def o_item(skip_on, skipped_dbg, node):
    if not skip_on:
        return node['dbg']
    return 'Skipped { skipped: [%s], matched: %s }' % (skipped_dbg, node['dbg'])


def o_parse(e, cx, pos, st):
    """independent string-level matcher of the shapes used here.  st = tuple of spans (top last).
    returns None | (pos', node, st')"""
    s = cx.s
    if e == 'any' or (not isinstance(e, str) and e[0] in ('range', 'charby')):
        fc = first_char(cx, pos)
        if fc is None:
            return None
        c, l = fc
        if e == 'any':
            name, ok = 'ANY', True
        elif e[0] == 'range':
            name, ok = 'CharRange', e[1] <= ord(c) <= e[2]
        else:
            name, ok = e[1], PRED_PY[e[1]](c)
        if not ok:
            return None
        return pos + l, {'dbg': '%s { content: %s }' % (name, dbg_char(c)), 'lf': 'c:' + dbg_char(c), 'wide': l > 1}, st
    if e == 'newline':
        for txt, k in ((b'\r\n', 'CRLF'), (b'\n', 'LF'), (b'\r', 'CR')):
            if s[pos:cx.end].startswith(txt):
                return pos + len(txt), {'dbg': 'NEWLINE { content: %s }' % k, 'lf': 'k:' + k, 'wide': k == 'CRLF'}, st
        return None
    if e in ('peek', 'pop', 'peekall', 'popall'):
        if e in ('peek', 'pop'):
            if not st:
                return None
            a, b = st[-1]
            if not s[pos:cx.end].startswith(s[a:b]):
                return None
            p2 = pos + (b - a)
            if e == 'peek':
                return p2, {'dbg': 'PEEK { span: %s }' % span_dbg(s, pos, p2), 'lf': 'sp:%d-%d:%s' % (pos, p2, dbg_str(s[pos:p2])), 'wide': True}, st
            return p2, {'dbg': 'POP { span: %s }' % span_dbg(s, a, b), 'lf': 'sp:%d-%d:%s' % (a, b, dbg_str(s[a:b])), 'wide': True,
                        'consumed': s[pos:p2]}, st[:-1]
        p2 = pos
        for a, b in reversed(st):
            if not s[p2:cx.end].startswith(s[a:b]):
                return None
            p2 += b - a
        name = 'PEEK_ALL' if e == 'peekall' else 'POP_ALL'
        return p2, {'dbg': '%s { span: %s }' % (name, span_dbg(s, pos, p2)), 'lf': 'sp:%d-%d:%s' % (pos, p2, dbg_str(s[pos:p2])), 'wide': True}, \
            (st if e == 'peekall' else ())
    t = e[0]
    if t == 'str':
        if s[pos:cx.end].startswith(e[1]):
            return pos + len(e[1]), {'dbg': 'Str'}, st
        return None
    if t == 'insens':
        got = s[pos:min(cx.end, pos + len(e[1]))]
        if len(got) == len(e[1]) and lower_ascii(got) == lower_ascii(e[1]):
            return pos + len(got), {'dbg': 'Insens { content: %s }' % dbg_str(got), 'lf': 's:' + dbg_str(got), 'wide': got != e[1]}, st
        return None
    if t == 'skipuntil':
        p2 = pos
        while p2 < cx.end and not any(s[p2:cx.end].startswith(x) for x in e[1]):
            p2 += 1
            while p2 < cx.end and (s[p2] & 0xC0) == 0x80:
                p2 += 1
        if p2 >= cx.end and not any(s[p2:cx.end].startswith(x) for x in e[1]):
            p2 = cx.end
        return p2, {'dbg': 'Skip { span: %s }' % span_dbg(s, pos, p2), 'lf': 'sp:%d-%d:%s' % (pos, p2, dbg_str(s[pos:p2])), 'wide': p2 > pos}, st
    if t == 'skipchars':
        p2 = pos
        for _ in range(e[1]):
            fc = first_char(cx, p2)
            if fc is None:
                return None
            p2 += fc[1]
        return p2, {'dbg': 'SkipChar { span: %s }' % span_dbg(s, pos, p2), 'lf': 'sp:%d-%d:%s' % (pos, p2, dbg_str(s[pos:p2])), 'wide': p2 - pos > e[1]}, st
    if t == 'seq':
        on = e[1] == 'on'
        items, p = [], pos
        for j, x in enumerate(e[2]):
            if on and j > 0:
                p, sk = o_skip(cx, p)
            else:
                sk = 'AtomicRepeat { content: [] }'
            r = o_parse(x, cx, p, st)
            if r is None:
                return None
            p, node, st = r
            items.append((sk, node))
        return p, {'dbg': 'Seq%d(%s)' % (len(items), ', '.join(o_item(on, sk, nd) for sk, nd in items)),
                   'items': items, 'on': on}, st
    if t == 'choice':
        for j, x in enumerate(e[1]):
            r = o_parse(x, cx, pos, st)
            if r is not None:
                p, node, st2 = r
                return p, {'dbg': 'Choice%d { _%d: %s }' % (len(e[1]), j, node['dbg']), 'n': len(e[1]), 'i': j, 'child': node}, st2
        return None
    if t == 'opt':
        r = o_parse(e[1], cx, pos, st)
        if r is None:
            return pos, {'dbg': 'None'}, st
        p, node, st2 = r
        return p, {'dbg': 'Some(%s)' % node['dbg'], 'child': node}, st2
    if t == 'rep':
        _, k, mn, mx, x = e
        on = k == 'on'
        items, p = [], pos
        while mx is None or len(items) < mx:
            q = p
            if on and items:
                q, sk = o_skip(cx, q)
            else:
                sk = 'AtomicRepeat { content: [] }'
            r = o_parse(x, cx, q, st)
            if r is None:
                break
            p, node, st = r
            items.append((sk, node))
        if len(items) < mn:
            return None
        name = 'RepeatMin' if mx is None else 'RepeatMinMax'
        return p, {'dbg': '%s { content: [%s] }' % (name, ', '.join(o_item(on, sk, nd) for sk, nd in items)), 'items': items, 'on': on}, st
    if t == 'push':
        r = o_parse(e[1], cx, pos, st)
        if r is None:
            return None
        p, node, st2 = r
        return p, {'dbg': 'Push { content: %s }' % node['dbg'], 'child': node}, st2 + ((pos, p),)
    raise ValueError(e)


def oracle_line(sh, form, s, a, b):
    """expected body (everything after `id|form|hex|a|b|`) and a non-triviality flag"""
    cx = Cx(s, 0, len(s)) if form == 'str' else Cx(s, a, b)
    r = o_parse(sh.expr, cx, cx.start, ())
    if r is None:
        return 'P:fail', False
    p, node, _ = r
    head = 'P:ok@%d=%s' % (p, node['dbg'])
    if sh.kind == 'choice':
        i, cd = node['i'], node['child']['dbg']
        # how many alternatives match here on their own?
        nmatch = sum(1 for x in sh.expr[1] if o_parse(x, cx, cx.start, ()) is not None)
        one = '%d=%s;calls=[%d]' % (i, cd, i)
        return '%s|ACC:[%d=%s]|IF:%s|RF:%s|CI:%s|CO:%s|MC:%s' % (head, i, cd, one, one, one, one, one), nmatch >= 2
    if sh.kind in ('seq', 'rep'):
        m = ';'.join(nd['dbg'] for _, nd in node['items'])
        al = ';'.join(o_item(node['on'], sk, nd) for sk, nd in node['items'])
        if sh.kind == 'seq':
            nt = len(node['items']) >= 2 and (not node['on'] or any('[Str' in sk for sk, _ in node['items']))
            return '%s|GM:%s|AR:%s|IM:%s|GA:%s|IA:%s' % (head, m, m, m, al, al), nt
        return '%s|IT:%s|II:%s|IL:%s|ILI:%s' % (head, m, m, al, al), len(node['items']) >= 2
    nd = node
    for j in sh.path:
        nd = nd['items'][j][1]
    return '%s|LF:%s' % (head, nd['lf']), bool(nd.get('wide')) or form != 'str'


# ------------------------------------------------------------------------------------------------ running
def shape_sexp(shard, sh):
    extra = ''
    if sh.kind == 'leaf':
        extra = ' (path%s)' % ''.join(' %d' % j for j in sh.path)
    return '(shape %s %s 1 %s%s)' % (sh.sid, sh.kind, shard.env.sexp(sh.expr), extra)


def fill_preds(shards, bindir):
    cps = sorted({ord(ch) for c in LEAF_CHARS for ch in c} | {ord('q')})
    for sd in shards:
        names = sd.env.pred_names
        if not names:
            continue
        q = "".join("%s %s\n" % (n, " ".join(map(str, cps))) for n in names)
        rc, so, se = run([os.path.join(bindir, "preds")], input=q)
        if rc != 0:
            raise RuntimeError("preds helper failed: " + se)
        sd.env.preds = {}
        for line in so.strip().split("\n"):
            parts = line.split()
            sd.env.preds[parts[0]] = [int(x) for x in parts[1:]]


def build_all(tier, shards):
    d = gen_crate(tier, shards)
    ok, out = build.cargo_build(d, profile="debug", target_sub="arity_%s%s" % (tier, repo_tag()))
    if not ok:
        raise RuntimeError("cargo build of the arity harness failed:\n%s" % out)
    okm, exe = build.build_extraction("Access")
    if not okm:
        raise RuntimeError(exe)
    return out, exe


def run_arity(tier, flags, seed=1):
    """returns (shards, records, problems); records = list of (shard, shape, (form, bytes, a, b), impl_line, model_line)"""
    shards = make_shards(tier, seed)
    bindir, model_exe = build_all(tier, shards)
    fill_preds(shards, bindir)
    work = os.path.join(CACHE, "runs", "arity_%s%s" % (tier, repo_tag()))
    os.makedirs(work, exist_ok=True)
    procs = []
    for sd in shards:
        rin = os.path.join(work, "in_%s.txt" % sd.name)
        job = os.path.join(work, "job_%s.txt" % sd.name)
        with open(rin, "w") as fr, open(job, "w") as fj:
            fj.write(sd.env.env_sexp(flags) + "\n")
            for i, sh in enumerate(sd.shapes):
                fr.write("(for %d)\n" % i)
                fj.write("(clear)\n" + shape_sexp(sd, sh) + "\n")
                for (form, b, a, bb) in sh.inputs:
                    line = "(in %s %s %d %d)\n" % (form, b.hex() if b else "-", a, bb)
                    fr.write(line)
                    fj.write(line)
        rout = open(os.path.join(work, "impl_%s.txt" % sd.name), "w")
        mout = open(os.path.join(work, "model_%s.txt" % sd.name), "w")
        p1 = subprocess.Popen([os.path.join(bindir, sd.name)], stdin=open(rin), stdout=rout, stderr=subprocess.PIPE)
        p2 = subprocess.Popen([model_exe], stdin=open(job), stdout=mout, stderr=subprocess.PIPE)
        procs.append((sd, p1, p2, rout, mout))
    problems, records = [], []
    for sd, p1, p2, rout, mout in procs:
        e1 = p1.communicate()[1]
        e2 = p2.communicate()[1]
        rout.close()
        mout.close()
        if p1.returncode != 0:
            problems.append("impl shard %s exited with %s: %s" % (sd.name, p1.returncode, e1.decode("utf8", "replace")[-500:]))
        if p2.returncode != 0:
            problems.append("model shard %s exited with %s: %s" % (sd.name, p2.returncode, e2.decode("utf8", "replace")[-500:]))
        il = open(os.path.join(work, "impl_%s.txt" % sd.name), encoding="utf8", errors="replace").read().split("\n")[:-1]
        ml = open(os.path.join(work, "model_%s.txt" % sd.name), encoding="utf8", errors="replace").read().split("\n")[:-1]
        cases = [(sh, inp) for sh in sd.shapes for inp in sh.inputs]
        if len(il) != len(cases) or len(ml) != len(cases):
            problems.append("shard %s: %d cases, %d impl lines, %d model lines" % (sd.name, len(cases), len(il), len(ml)))
        for (sh, inp), a, b in zip(cases, il, ml):
            records.append((sd, sh, inp, a, b))
    return shards, records, problems, model_exe


def body_of(line):
    """strip `id|form|hex|a|b|`"""
    return line.split("|", 5)[5] if line.count("|") >= 5 else line


# ---- cross-check of the extraction: a seeded sample re-evaluated by vm_compute inside coqc
def coq_nat_list(bs):
    return "[" + "; ".join("%d%%N" % x for x in bs) + "]"


def coq_texpr(env, e):
    if isinstance(e, str):
        return {'any': 'TAny', 'soi': 'TSoi', 'eoi': 'TEoi', 'newline': 'TNewline', 'peek': 'TPeek', 'pop': 'TPop', 'drop': 'TDrop',
                'peekall': 'TPeekAll', 'popall': 'TPopAll', 'empty': 'TEmpty', 'fail': 'TFail'}[e]
    t = e[0]
    k = lambda x: {'off': 'SkOff', 'on': 'SkOn', 'inh': 'SkInh'}[x]
    if t == 'str':
        return "(TStr %s)" % coq_nat_list(e[1])
    if t == 'insens':
        return "(TInsens %s)" % coq_nat_list(e[1])
    if t == 'range':
        return "(TRange %d%%N %d%%N)" % (e[1], e[2])
    if t == 'seq':
        return "(TSeq %s [%s])" % (k(e[1]), "; ".join(coq_texpr(env, x) for x in e[2]))
    if t == 'choice':
        return "(TChoice [%s])" % "; ".join(coq_texpr(env, x) for x in e[1])
    if t == 'opt':
        return "(TOpt %s)" % coq_texpr(env, e[1])
    if t == 'rep':
        return "(TRep %s %d %s %s)" % (k(e[1]), e[2], "None" if e[3] is None else "(Some %d)" % e[3], coq_texpr(env, e[4]))
    if t == 'push':
        return "(TPush %s)" % coq_texpr(env, e[1])
    raise ValueError(e)


VM_HEAD = '''From Coq Require Import List NArith ZArith Arith Bool.
From PT Require Import Model.Base Model.Stack Model.Texpr Model.Sem Model.Aparse Model.Access.
Import ListNotations.
Definition mkE (i : inp) (ron su rp : bool) : env :=
  mk_env i (fun _ => mk_rdef None EmBoth TFail) (SkipRep (TStr [32%N])) (fun _ _ => false) 0%N ron su rp.
Fixpoint lbls (n k : nat) : list (tnode -> nat) :=
  match n with O => [] | S n' => (fun _ => k) :: lbls n' (S k) end.
Definition fl (r : option (nat * list nat)) : list nat := match r with Some (l, c) => l :: c | None => [998] end.
Definition summary (E : env) (fuel : nat) (e : texpr) : list nat :=
  match tparse E fuel true e (i_start (e_inp E)) st0 with
  | Ok (off, t) _ =>
      match t with
      | NChoice n ci _ => [1; off; n; ci] ++ fl (chain_run (lbls n 0) t) ++ [999] ++ fl (match_choices (lbls n 0) t)
      | _ => [1; off; match seq_matched t, rep_matched t with Some l, _ => length l | _, Some l => length l | _, _ => 0 end]
      end
  | _ => [0]
  end.
'''


def vm_crosscheck(ctx, records, model_exe, flags, rng, k=12):
    """re-evaluate k sampled choice/seq/rep cases inside coqc and compare with the extracted driver's summaries"""
    import re
    pool = [r for r in records if r[1].kind in ('choice', 'seq', 'rep') and r[1].family != 'lf' and r[2][0] == 'str'
            and not has_charby(r[1].expr) and len(r[2][1]) <= 24]
    if not pool:
        return
    sample = [pool[rng.below(len(pool))] for _ in range(k)]
    d = os.path.join(CACHE, "runs", "arity_vm%s" % repo_tag())
    os.makedirs(d, exist_ok=True)
    v = [VM_HEAD]
    job = []
    bl = lambda x: "true" if x else "false"
    for sd, sh, (form, s, a, b), _, _ in sample:
        v.append("Eval vm_compute in (summary (mkE (inp_of_str %s) %s %s %s) %d %s)." % (
            coq_nat_list(s), bl(flags[0]), bl(flags[1]), bl(flags[2]), 48 + 3 * len(s), coq_texpr(sd.env, sh.expr)))
        job += [sd.env.env_sexp(flags), "(clear)", shape_sexp(sd, sh), "(sum str %s 0 0)" % (s.hex() if s else "-")]
    with open(os.path.join(d, "vm.v"), "w") as f:
        f.write("\n".join(v) + "\n")
    rc, so, se = run(["timeout", "600", "coqc", "-Q", os.path.join(VERIF, "coq", "theories"), "PT", "-w",
                      "-notation-overridden", "vm.v"], cwd=d, timeout=630)
    coq_vals = [[int(x) for x in re.findall(r"\d+", m)] for m in re.findall(r"=\s*\[([^\]]*)\]", so)]
    rc2, so2, se2 = run([model_exe], input="\n".join(job) + "\n")
    drv_vals = [[int(x) for x in line.split("|")[1].split(";")] for line in so2.strip().split("\n") if line]
    ok = rc == 0 and rc2 == 0 and len(coq_vals) == len(sample) and coq_vals == drv_vals
    ctx.oblige("extraction cross-check: %d sampled cases, vm_compute in coqc == extracted driver" % len(sample), ok,
               "" if ok else "coq=%s drv=%s err=%s" % (coq_vals[:4], drv_vals[:4], (se + se2)[-500:]))
    return ok


def has_charby(e):
    s = set()
    collect_preds(e, s)
    return bool(s)


# ------------------------------------------------------------------------------------------------ replay
def replay(path, flags=(1, 0, 1)):
    """re-run one recorded case (replays/C17-*.json) on the real code, the model and the oracle; True = all agree"""
    import json
    rp = json.load(open(path if os.path.isabs(path) else os.path.join(VERIF, path)))
    tier, seed = rp.get("tier", "quick"), rp.get("seed", 1)
    shards = make_shards(tier, seed)
    sd = next(s for s in shards if s.name == rp["shard"])
    sh = next(x for x in sd.shapes if x.sid == rp["shape_id"])
    bindir, model_exe = build_all(tier, shards)
    fill_preds(shards, bindir)
    s = bytes.fromhex(rp["input_hex"]) if rp["input_hex"] != "-" else b""
    line = "(in %s %s %d %d)\n" % (rp["form"], rp["input_hex"], rp["a"], rp["b"])
    rc, impl, _ = run([os.path.join(bindir, sd.name)], input="(for %d)\n%s" % (sd.shapes.index(sh), line))
    rc2, model, _ = run([model_exe], input="%s\n(clear)\n%s\n%s" % (sd.env.env_sexp(flags), shape_sexp(sd, sh), line))
    want, _ = oracle_line(sh, rp["form"], s, rp["a"], rp["b"])
    impl, model = impl.strip(), model.strip()
    print("shape :", shape_sexp(sd, sh))
    print("input :", repr(s.decode("utf8")), rp["form"], rp["a"], rp["b"])
    print("impl  :", body_of(impl))
    print("model :", body_of(model))
    print("oracle:", want)
    ok = body_of(impl) == want and impl == model
    print("AGREE" if ok else "DISAGREE")
    return ok
