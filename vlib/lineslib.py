"""Shared plumbing of the C12 / C13 checks: build harness/unitpos (Cargo.toml generated from the
template with the current REPO), build the extracted model driver, run both over sharded case files,
vm_compute cross-check of the extraction."""
import os
import re
import subprocess
import time

from .common import CACHE, COQ, REPO, VERIF, NCPU, run, log, sha
from . import build

HARNESS = os.path.join(VERIF, "harness", "unitpos")
WORK = os.path.join(CACHE, "lines")

LF, CR, A, E2, ZH, EMO = "\n", "\r", "a", "é", "中", "\U0001F600"
# characters at the edges of the UTF-8 byte classes (0x7F, first / last continuation byte 0x80 / 0xBF in every
# position, first and last code point of every encoded length) and the line-break look-alikes that are NOT line breaks
EDGE = ["\x7f", "\u0080", "\u00bf", "\u00ff", "\u07ff", "\u0800", "\ufeff", "\uffff", "\U00010000", "\U0010ffff",
        "\u0085", "\u2028", "\x0b", "\x0c", "\t",
        # code points whose low byte is LF / CR (a truncating cast would take them for line breaks)
        "\u010a", "\u010d", "\u4e0a", "\u200a"]


class CountSet:
    """stands in for ctx.nontrivial when the distinct cases are counted by construction
    (strings are de-duplicated, offsets/spans of one string are distinct) instead of being stored"""

    def __init__(self):
        self.n = 0

    def add(self, _k):
        self.n += 1

    def add_n(self, n):
        self.n += n

    def __len__(self):
        return self.n


def hx(s):
    b = s.encode("utf8")
    return b.hex() if b else "-"


def unhx(h):
    return b"" if h == "-" else bytes.fromhex(h)


def all_strings(alphabet, maxlen):
    """every string over the alphabet up to maxlen characters, shortest first"""
    cur = [""]
    yield ""
    for _ in range(maxlen):
        cur = [s + c for s in cur for c in alphabet]
        for s in cur:
            yield s


def write_cargo_toml():
    tpl = open(os.path.join(HARNESS, "Cargo.toml.in")).read().replace("@REPO@", REPO)
    p = os.path.join(HARNESS, "Cargo.toml")
    if not os.path.exists(p) or open(p).read() != tpl:
        with open(p, "w") as f:
            f.write(tpl)
        lock = os.path.join(HARNESS, "Cargo.lock")   # path dependency moved: let cargo_build copy a fresh lock
        if os.path.exists(lock):
            os.remove(lock)


def build_all(ctx):
    """returns (harness_exe, model_exe) or (None, None) after recording the failed obligation"""
    write_cargo_toml()
    sub = None if os.path.realpath(REPO) == "/repo" else "alt-" + sha(os.path.realpath(REPO))[:10]
    ok, out = build.cargo_build(HARNESS, "debug", target_sub=sub)
    ctx.oblige("cargo build harness/unitpos against %s" % REPO, ok, "" if ok else out)
    if not ok:
        return None, None
    exe = os.path.join(out, "unitpos")
    ok, drv = build.build_extraction("Lines")
    ctx.oblige("extraction + ocamlopt of the Lines/SpanOps model", ok, "" if ok else drv)
    if not ok:
        return exe, None
    return exe, drv


def run_sharded(exe, lines, tag, shards=NCPU, timeout=3000):
    """feed the case lines to `shards` copies of exe, return the output lines in input order"""
    os.makedirs(WORK, exist_ok=True)
    n = len(lines)
    shards = max(1, min(shards, (n + 199) // 200))
    procs = []
    for i in range(shards):
        chunk = lines[i::shards]           # round-robin: long cases are spread evenly
        fin = os.path.join(WORK, "%s.%d.in" % (tag, i))
        fout = os.path.join(WORK, "%s.%d.out" % (tag, i))
        with open(fin, "w") as f:
            f.write("\n".join(chunk))
            f.write("\n")
        p = subprocess.Popen([exe], stdin=open(fin), stdout=open(fout, "w"), stderr=subprocess.DEVNULL)
        procs.append((p, fout, len(chunk)))
    out = [None] * n
    t0 = time.time()
    for i, (p, fout, k) in enumerate(procs):
        try:
            p.wait(timeout=max(1, timeout - (time.time() - t0)))
        except subprocess.TimeoutExpired:
            for q, _, _ in procs:
                q.kill()
            raise RuntimeError("%s timed out on %s" % (exe, tag))
        got = open(fout).read().split("\n")
        if got and got[-1] == "":
            got.pop()
        if p.returncode != 0 or len(got) != k:
            raise RuntimeError("%s: rc=%s, %d output lines for %d cases (%s)" % (exe, p.returncode, len(got), k, fout))
        out[i::shards] = got
    return out


def split_sides(line):
    """'<hex>\\tI body\\tP body' or '<hex>\\tM body' -> (hex, {side: body})"""
    parts = line.split("\t")
    return parts[0], {p[0]: p[2:] for p in parts[1:]}


def coq_bytes(h):
    return "[" + "; ".join("%d%%N" % b for b in unhx(h)) + "]"


def vm_check(ctx, name, header, examples):
    """examples: list of (label, 'lhs = rhs'); compile them as `Example .. Proof. vm_compute. reflexivity. Qed.`
    Returns (ok, message).  The file lives under .cache (it is generated, not part of the development)."""
    os.makedirs(WORK, exist_ok=True)
    path = os.path.join(WORK, "%s_vm.v" % name)
    src = [header]
    for i, (_label, stmt) in enumerate(examples):
        src.append("Example vm_%d : %s.\nProof. vm_compute. reflexivity. Qed." % (i, stmt))
    with open(path, "w") as f:
        f.write("\n".join(src) + "\n")
    rc, so, se = run(["timeout", "600", "coqc", "-Q", os.path.join(COQ, "theories"), "PT", "-w",
                      "-notation-overridden,-deprecated-hint-without-locality", path], cwd=WORK, timeout=630)
    if rc == 0:
        return True, ""
    m = re.search(r"line (\d+)", so + se)
    which = ""
    if m:
        ln = int(m.group(1))
        txt = open(path).read().split("\n")
        which = " ".join(txt[max(0, ln - 2):ln + 1])[:600]
    return False, (which + " :: " + (so + se)[-600:])
