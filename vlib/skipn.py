"""C19, skip counts >= 2 (harness/unitskip).  The runtime's repetition and sequence combinators store `[Skip; SKIP]` in
front of every element but the first; the generator only ever emits SKIP = 0 / 1 with the idempotent skip
`(WHITESPACE | COMMENT)*`, and the Coq model's skip argument is off / on / inherited.  Used directly, SKIP may be any count and
Skip any never-failing node.  This module instantiates RepMin / RepMinMax / RepExact / Rep / RepOnce / Seq2 / Seq3 with
SKIP in 0..3 and the bounded skips `" "?` / `" "{0,2}`, runs them on every string over {a, b, ' '} up to a length bound, and
compares parse and check with the counting specification of the property (oracle below, independent of the code):
greedy, every element but the first preceded by SKIP consecutive matches of Skip, a unit whose element fails gives its skips
back, stop at MAX, fail exactly when fewer than MIN units match; parse and check agree."""
import os
import subprocess

from .common import REPO, VERIF, sha
from . import build

HARNESS = os.path.join(VERIF, "harness", "unitskip")

ELEMS = {"a": ("ElA", ("str", "a")), "c": ("ElC", ("choice", ("str", "ab"), ("str", "a"))), "b": ("ElB", ("str", "b"))}
BLANKS = {"1": ("Blank1", ("rep", ("str", " "), ("empty",), 0, 0, 1)), "2": ("Blank2", ("rep", ("str", " "), ("empty",), 0, 0, 2))}


def types():
    """[(descriptor, rust type, node)]"""
    out = []
    for el in ("a", "c"):
        for bl in ("1", "2"):
            for k in (0, 1, 2, 3):
                if bl == "2" and k not in (1, 2):
                    continue
                et, en = ELEMS[el]
                bt, bn = BLANKS[bl]
                for mn in (0, 1, 2):
                    out.append(("min:%s:%s:%d:%d" % (el, bl, k, mn), "RepMin<%s, %s, %d, %d>" % (et, bt, k, mn), ("rep", en, bn, k, mn, None)))
                    for mx in (1, 2, 3):
                        out.append(("mm:%s:%s:%d:%d:%d" % (el, bl, k, mn, mx), "RepMinMax<%s, %s, %d, %d, %d>" % (et, bt, k, mn, mx),
                                    ("rep", en, bn, k, mn, mx)))
                for n in (0, 2, 3):
                    out.append(("ex:%s:%s:%d:%d" % (el, bl, k, n), "RepExact<%s, %s, %d, %d>" % (et, bt, k, n), ("rep", en, bn, k, n, n)))
                out.append(("star:%s:%s:%d" % (el, bl, k), "Rep<%s, %s, %d>" % (et, bt, k), ("rep", en, bn, k, 0, None)))
                out.append(("plus:%s:%s:%d" % (el, bl, k), "RepOnce<%s, %s, %d>" % (et, bt, k), ("rep", en, bn, k, 1, None)))
                sk = lambda t: "Skipped<%s, %s, %d>" % (t, bt, k)
                out.append(("seq2:%s:%s:%d" % (el, bl, k), "Seq2<%s, %s>" % (sk(et), sk("ElB")), ("seq", [en, ELEMS["b"][1]], bn, k)))
                out.append(("seq3:%s:%s:%d" % (el, bl, k), "Seq3<%s, %s, %s>" % (sk(et), sk("ElB"), sk(et)), ("seq", [en, ELEMS["b"][1], en], bn, k)))
                # a repetition of sequences: both levels count their own skips
                out.append(("nest:%s:%s:%d" % (el, bl, k), "RepMin<Seq2<%s, %s>, %s, %d, 0>" % (sk(et), sk("ElB"), bt, k),
                            ("rep", ("seq", [en, ELEMS["b"][1]], bn, k), bn, k, 0, None)))
    return out


def eq_types():
    """types for the C18 pass (harness mode `eq`): all of types() plus containers whose DIRECT elements are sequences
    (std compares arrays / slices / Vecs element-wise through `!=`)"""
    out = [(d, ty) for d, ty, _ in types()]
    for el in ("a", "c"):
        for k in (0, 1, 2):
            et = ELEMS[el][0]
            sq = "Seq2<Skipped<%s, Blank1, %d>, Skipped<ElB, Blank1, %d>>" % (et, k, k)
            out.append(("arr2seq:%s:%d" % (el, k), "[%s; 2]" % sq))
            out.append(("arepseq:%s:%d" % (el, k), "AtomicRepeat<%s>" % sq))
            sq3 = "Seq3<Skipped<%s, Blank1, %d>, Skipped<ElB, Blank1, %d>, Skipped<ElC, Blank1, %d>>" % (et, k, k, k)
            out.append(("arepseq3:%s:%d" % (el, k), "AtomicRepeat<%s>" % sq3))
    return out


def default_shape(node):
    if node[0] == "rep":
        return "()"
    if node[0] == "empty":
        return ""
    raise ValueError(node)


def parse(node, s, pos):
    """the specification: (new offset, shape) or None"""
    t = node[0]
    if t == "str":
        return (pos + len(node[1]), node[1]) if s.startswith(node[1], pos) else None
    if t == "empty":
        return (pos, "")
    if t == "choice":
        for i, alt in enumerate(node[1:]):
            r = parse(alt, s, pos)
            if r:
                return (r[0], "%d:%s" % (i, r[1]))
        return None
    if t == "seq":
        _, els, skip, k = node
        shapes = []
        for i, el in enumerate(els):
            sks = []
            for _ in range(k):
                if i == 0:
                    sks.append(default_shape(skip))
                else:
                    pos, sh = parse(skip, s, pos)
                    sks.append(sh)
            r = parse(el, s, pos)
            if r is None:
                return None
            pos = r[0]
            shapes.append("[%s]%s" % (",".join(sks), r[1]))
        return (pos, "<%s>" % ";".join(shapes))
    if t == "rep":
        _, el, skip, k, mn, mx = node
        units = []
        while mx is None or len(units) < mx:
            p = pos
            sks = []
            for _ in range(k):
                if not units:
                    sks.append(default_shape(skip))
                else:
                    p, sh = parse(skip, s, p)
                    sks.append(sh)
            r = parse(el, s, p)
            if r is None:
                break
            pos = r[0]
            units.append("[%s]%s" % (",".join(sks), r[1]))
        if len(units) < mn:
            return None
        return (pos, "(%s)" % "|".join(units))
    raise ValueError(node)


def node_sexp(n):
    t = n[0]
    if t == "str":
        return "(str %s)" % n[1].encode().hex()
    if t == "empty":
        return "(empty)"
    if t == "choice":
        return "(choice %s %s)" % (node_sexp(n[1]), node_sexp(n[2]))
    if t == "seq":
        return "(seq %d %s %s)" % (n[3], node_sexp(n[2]), " ".join(node_sexp(e) for e in n[1]))
    if t == "rep":
        return "(rep %d %d %s %s %s)" % (n[3], n[4], "-" if n[5] is None else n[5], node_sexp(n[2]), node_sexp(n[1]))
    raise ValueError(n)


def run_model(maxlen):
    """the extracted Model/SkipN.v (sparse / scheck) on the same types and inputs; returns (ok, lines or log)"""
    ok, exe = build.build_extraction("SkipN")
    if not ok:
        return False, exe
    req = "".join("T %s %s\n" % (d, node_sexp(n)) for d, _, n in types()) + "R %d\n" % maxlen
    p = subprocess.run([exe], input=req, capture_output=True, text=True, timeout=3000)
    if p.returncode != 0:
        return False, p.stderr[-2000:]
    return True, [l for l in p.stdout.split("\n") if l]


def nf_types():
    """the types of types() that implement NeverFailedTypedNode: repetitions with MIN = 0 (RepeatMin<_, 0>, RepeatMinMax<_, 0, MAX>)"""
    return [(d, ty, n) for d, ty, n in types() if n[0] == "rep" and n[4] == 0 and d.split(":")[0] in ("min", "mm", "star", "nest")]


def write_sources():
    tpl = open(os.path.join(HARNESS, "Cargo.toml.in")).read().replace("@REPO@", REPO)
    p = os.path.join(HARNESS, "Cargo.toml")
    if not os.path.exists(p) or open(p).read() != tpl:
        with open(p, "w") as f:
            f.write(tpl)
        lock = os.path.join(HARNESS, "Cargo.lock")
        if os.path.exists(lock):
            os.remove(lock)
    src = "{\n" + "".join('    run_one::<%s>("%s", &inputs, &mut out);\n' % (ty, d) for d, ty, _ in types()) + "}\n"
    p = os.path.join(HARNESS, "src", "types.rs")
    if not os.path.exists(p) or open(p).read() != src:
        with open(p, "w") as f:
            f.write(src)
    src = "{\n" + "".join('    nf_one::<%s>("%s", &inputs, &mut out);\n' % (ty, d) for d, ty, _ in nf_types()) + "}\n"
    p = os.path.join(HARNESS, "src", "nf_types.rs")
    if not os.path.exists(p) or open(p).read() != src:
        with open(p, "w") as f:
            f.write(src)
    src = "{\n" + "".join('    eq_one::<%s>("%s", &inputs, &mut out);\n' % (ty, d) for d, ty in eq_types()) + "}\n"
    p = os.path.join(HARNESS, "src", "eq_types.rs")
    if not os.path.exists(p) or open(p).read() != src:
        with open(p, "w") as f:
            f.write(src)


def check_skip_counts(ctx, maxlen):
    write_sources()
    sub = None if os.path.realpath(REPO) == "/repo" else "alt-" + sha(os.path.realpath(REPO))[:10]
    ok, out = build.cargo_build(HARNESS, "debug", target_sub=sub)
    ctx.oblige("cargo build harness/unitskip (runtime combinators with SKIP in 0..3) against %s" % REPO, ok, "" if ok else out[-1500:])
    if not ok:
        ctx.violation("the raw combinators instantiated with SKIP >= 2 no longer compile", {"log": out[-3000:]}, found_input=False)
        return
    p = subprocess.run([os.path.join(out, "unitskip"), str(maxlen)], capture_output=True, text=True, timeout=3000)
    if p.returncode != 0:
        ctx.violation("harness/unitskip crashed", {"rc": p.returncode, "stderr": p.stderr[-2000:]}, found_input=False)
        return
    nodes = {d: (ty, n) for d, ty, n in types()}
    n = bad = 0
    reported = set()
    impl_lines = [l for l in p.stdout.split("\n") if l]
    mok, model_lines = run_model(maxlen)
    ctx.oblige("extraction + ocamlopt of Model/SkipN.v and its run on the same types and inputs", mok, "" if mok else model_lines[-1500:])
    t2bad = 0
    if mok:
        if len(model_lines) != len(impl_lines):
            ctx.violation("Model/SkipN.v run: %d lines for %d implementation lines" % (len(model_lines), len(impl_lines)), {}, found_input=False)
            mok = False
    for li, line in enumerate(impl_lines):
        d, hx, pf, cf = line.split("\t")
        ty, node = nodes[d]
        s = bytes.fromhex(hx).decode() if hx != "-" else ""
        want = parse(node, s, 0)
        wp = "P:fail" if want is None else "P:%d=%s" % want
        wc = "C:fail" if want is None else "C:%d" % want[0]
        n += 1
        if want is not None and want[0] > 0:
            ctx.nontrivial.add(("skipn", d, hx))
        ctx.count("skipn_kind=%s" % d.split(":")[0])
        if pf != wp or cf != wc:
            bad += 1
            fam = d.split(":")[0] + ("/parse" if pf != wp else "/check")
            if fam not in reported and len(reported) < 4:
                reported.add(fam)
                what = []
                if pf != wp:
                    what.append("parse gives %s, the counting specification %s" % (pf[:120], wp[:120]))
                if cf != wc:
                    what.append("check gives %s, the counting specification %s" % (cf, wc) + (" (and parse %s)" % pf[:60] if pf == wp else ""))
                ctx.violation("raw combinator with an explicit skip count off its specification: %s on %r: %s" % (ty, s, "; ".join(what)),
                              {"type": ty, "descriptor": d, "input": s, "input_hex": hx, "impl": [pf, cf], "spec": [wp, wc],
                               "skip_nodes": {"Blank1": '" "? = RepMinMax<Str<" ">, Empty, 0, 0, 1>', "Blank2": '" "{0,2}'},
                               "rerun": ".cache/target/debug/unitskip %d | grep -F '%s' | grep -F '%s'" % (maxlen, d, hx)})
        if mok and model_lines[li] != line:
            t2bad += 1
            # a failing input of the property on this case was reported above if there is one; otherwise the bare correspondence
            if pf == wp and cf == wc and t2bad <= 2:
                ctx.violation("Model/SkipN.v (sparse / scheck) no longer describes %s on %r" % (ty, s),
                              {"type": ty, "input": s, "impl": line, "model": model_lines[li],
                               "broken": "correspondence Model/SkipN.v vs main/src/predefined_node/repetition.rs, sequence.rs"}, found_input=False)
    ctx.coverage["skipn_model_mismatches"] = t2bad
    ctx.oblige("raw repetitions / sequences with SKIP in 0..3 == extracted Model/SkipN.v (parse path and check path) on %d (type, input) pairs" % n,
               (not mok) or t2bad == 0)
    ctx.evaluations += n
    ctx.coverage["skipn_types"] = len(nodes)
    ctx.coverage["skipn_cases"] = n
    ctx.coverage["skipn_mismatches"] = bad
    ctx.oblige("raw repetitions / sequences with SKIP in 0..3 and bounded skip nodes == counting specification on %d (type, input) pairs" % n,
               bad == 0 and n > 0)


def check_eq(ctx, maxlen):
    """C18 on the raw combinators with explicit skip counts (mode `eq` of harness/unitskip)"""
    write_sources()
    sub = None if os.path.realpath(REPO) == "/repo" else "alt-" + sha(os.path.realpath(REPO))[:10]
    ok, out = build.cargo_build(HARNESS, "debug", target_sub=sub)
    ctx.oblige("cargo build harness/unitskip (eq / hash / Debug of raw combinators with SKIP in 0..3) against %s" % REPO, ok, "" if ok else out[-1500:])
    if not ok:
        ctx.violation("the raw combinators instantiated with SKIP >= 2 no longer compile", {"log": out[-3000:]}, found_input=False)
        return
    p = subprocess.run([os.path.join(out, "unitskip"), str(maxlen), "eq"], capture_output=True, text=True, timeout=3000)
    if p.returncode != 0:
        ctx.violation("harness/unitskip (eq mode) crashed", {"rc": p.returncode, "stderr": p.stderr[-2000:]}, found_input=False)
        return
    tys = dict(eq_types())
    nv = ng = nbad = 0
    shown = 0
    for line in p.stdout.split("\n"):
        if not line:
            continue
        d, tag, values, groups, bad, wit = line.split("\t")
        nv += int(values)
        ng += int(groups)
        ctx.evaluations += int(values)
        if int(groups) > 1:
            ctx.nontrivial.add(("skipn-eq", d))
        if int(bad):
            nbad += int(bad)
            if shown < 3:
                shown += 1
                kind, _, hexes = wit.partition(":")
                ins = [bytes.fromhex(x).decode() if x != "-" else "" for x in hexes.split(",")]
                ctx.violation("raw combinator values: %s for %s parsed from %r" % (kind.replace("-", " "), tys[d], ins),
                              {"type": tys[d], "inputs": ins, "kind": kind, "cases_of_this_type": int(bad),
                               "rerun": ".cache/target/debug/unitskip %d eq | grep -F '%s'" % (maxlen, d)})
    ctx.coverage["skipn_eq_types"] = len(tys)
    ctx.coverage["skipn_eq_values"] = nv
    ctx.coverage["skipn_eq_distinct_renderings"] = ng
    ctx.coverage["skipn_eq_bad"] = nbad
    ctx.oblige("raw combinators with SKIP in 0..3: == iff same {:?}, == implies same hash, != is not ==, clone equal, on %d values (%d renderings)" % (nv, ng),
               nbad == 0 and nv > 0)


def check_never_failed(ctx, maxlen, prop_words="the skip is matched between iterations only, never at the start"):
    """NeverFailedTypedNode::parse_with / check_with of every MIN = 0 repetition type (SKIP in 0..3, bounded skip nodes) against the
    counting specification `parse` (the same oracle check_skip_counts uses for the fallible entry points)."""
    write_sources()
    sub = None if os.path.realpath(REPO) == "/repo" else "alt-" + sha(os.path.realpath(REPO))[:10]
    ok, out = build.cargo_build(HARNESS, "debug", target_sub=sub)
    ctx.oblige("cargo build harness/unitskip (never-failing entry points) against %s" % REPO, ok, "" if ok else out[-1500:])
    if not ok:
        ctx.violation("harness/unitskip no longer compiles (NeverFailedTypedNode on MIN = 0 repetitions)", {"log": out[-3000:]}, found_input=False)
        return
    p = subprocess.run([os.path.join(out, "unitskip"), str(maxlen), "nf"], capture_output=True, text=True, timeout=3000)
    if p.returncode != 0:
        ctx.violation("harness/unitskip nf crashed", {"rc": p.returncode, "stderr": p.stderr[-2000:]}, found_input=False)
        return
    nodes = {d: (ty, n) for d, ty, n in nf_types()}
    n = bad = 0
    reported = set()
    for line in p.stdout.split("\n"):
        if not line:
            continue
        d, hx, pf, cf = line.split("\t")
        ty, node = nodes[d]
        s = bytes.fromhex(hx).decode() if hx != "-" else ""
        want = parse(node, s, 0)
        wp = "P:%d=%s" % want
        wc = "C:%d" % want[0]
        n += 1
        if want[0] > 0:
            ctx.nontrivial.add(("skipn-nf", d, hx))
        ctx.count("skipn_nf_kind=%s" % d.split(":")[0])
        if pf != wp or cf != wc:
            bad += 1
            fam = d.split(":")[0] + ("/parse_with" if pf != wp else "/check_with")
            if fam not in reported and len(reported) < 3:
                reported.add(fam)
                ctx.violation("never-failing entry point of %s on %r: parse_with %s, check_with %s; specification (%s) %s / %s"
                              % (ty, s, pf[:100], cf, prop_words, wp[:100], wc),
                              {"type": ty, "descriptor": d, "input": s, "input_hex": hx, "impl": [pf, cf], "spec": [wp, wc],
                               "entry_points": "NeverFailedTypedNode::parse_with / check_with",
                               "skip_nodes": {"Blank1": '" "? = RepMinMax<Str<" ">, Empty, 0, 0, 1>', "Blank2": '" "{0,2}'},
                               "rerun": ".cache/target/debug/unitskip %d nf | grep -F '%s' | grep -F '%s'" % (maxlen, d, hx)})
    ctx.evaluations += n
    ctx.coverage["skipn_nf_types"] = len(nodes)
    ctx.coverage["skipn_nf_cases"] = n
    ctx.coverage["skipn_nf_mismatches"] = bad
    ctx.oblige("NeverFailedTypedNode::parse_with / check_with of MIN = 0 repetitions (SKIP in 0..3) == counting specification on %d (type, input) pairs" % n,
               bad == 0 and n > 0)
