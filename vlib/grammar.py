"""Grammars: corpus, structured random generation, the real generator's output (gen_dump) and the model's
translation (Model/Translate.v through ocaml/Gen_drv) in one comparable form (vlib.texpr tuples)."""
import os
import re
import subprocess

from . import gendump, build
from .common import REPO, CACHE, Rng, log
from .texpr import Env

BUILTINS = ["ANY", "SOI", "EOI", "PEEK", "PEEK_ALL", "POP", "POP_ALL", "DROP", "NEWLINE", "ASCII_DIGIT",
            "ASCII_NONZERO_DIGIT", "ASCII_BIN_DIGIT", "ASCII_OCT_DIGIT", "ASCII_HEX_DIGIT", "ASCII_ALPHA_LOWER",
            "ASCII_ALPHA_UPPER", "ASCII_ALPHA", "ASCII_ALPHANUMERIC", "ASCII"]


def rng_(lo, hi):
    return ('range', ord(lo), ord(hi))


# predefined_node/mod.rs:972-1012 (the Coq copy is Model/Translate.v builtin_texpr; tied to the runtime by rtcat `builtin` shapes)
ALIAS = {
    "ANY": 'any', "SOI": 'soi', "PEEK": 'peek', "PEEK_ALL": 'peekall', "POP": 'pop', "POP_ALL": 'popall', "DROP": 'drop',
    "NEWLINE": 'newline', "AlwaysFail": 'fail',
    "ASCII_DIGIT": rng_('0', '9'), "ASCII_NONZERO_DIGIT": rng_('1', '9'), "ASCII_BIN_DIGIT": rng_('0', '1'),
    "ASCII_OCT_DIGIT": rng_('0', '7'),
    "ASCII_HEX_DIGIT": ('choice', [rng_('0', '9'), rng_('a', 'f'), rng_('A', 'F')]),
    "ASCII_ALPHA_LOWER": rng_('a', 'z'), "ASCII_ALPHA_UPPER": rng_('A', 'Z'),
    "ASCII_ALPHA": ('choice', [rng_('a', 'z'), rng_('A', 'Z')]),
    "ASCII_ALPHANUMERIC": ('choice', [('choice', [rng_('a', 'z'), rng_('A', 'Z')]), rng_('0', '9')]),
    "ASCII": ('range', 0, 127),
}

_unicode = None


def unicode_names():
    global _unicode
    if _unicode is None:
        src = open(os.path.join(REPO, "main", "src", "predefined_node", "unicode.rs")).read()
        _unicode = re.findall(r"^unicode!\((\w+)\);", src, re.M)
    return _unicode


def kopt(k):
    return None if k == "none" else int(k)


# ------------------------------------------------------------ gen_dump `typed` -> tuples
def from_dump_texpr(t, defined, aliases):
    if isinstance(t, str):
        return t            # 'empty'
    h = t[0]
    rec = lambda x: from_dump_texpr(x, defined, aliases)  # noqa: E731
    if h in ("str", "insens"):
        return (h, gendump.unhex_bytes(t[1]))
    if h == "slice":
        return ('slice', int(t[1]), kopt(t[2]))
    if h in ("push", "pos", "neg", "opt", "atomicrep"):
        return (h, rec(t[1]))
    if h == "skipuntil":
        return ('skipuntil', [gendump.unhex_bytes(x) for x in t[1]])
    if h == "range":
        return ('range', int(t[1]), int(t[2]))
    if h == "seq":
        return ('seq', t[1], [rec(x) for x in t[2:]])
    if h == "choice":
        return ('choice', [rec(x) for x in t[1:]])
    if h == "rep":
        return ('rep', t[1], int(t[2]), kopt(t[3]), rec(t[4]))
    if h == "repexact":
        return ('rep', t[1], int(t[2]), int(t[2]), rec(t[3]))
    if h == "repmin":
        return ('rep', t[1], int(t[2]), None, rec(t[3]))
    if h == "repmax" and len(t) == 4:
        return ('rep', t[1], 0, int(t[2]), rec(t[3]))
    if h == "repmax" and len(t) == 5:
        return ('rep', t[1], int(t[2]), int(t[3]), rec(t[4]))
    if h == "repminmax":
        return ('rep', t[1], int(t[2]), int(t[3]), rec(t[4]))
    if h == "rule":
        name, k = t[1], t[2]
        if name in defined:
            return ('rule', name, k)          # k == 'default' would be a mismatch: reported by the comparison
        if name == "EOI":
            return ('rule', 'EOI', 'on')
        tgt = aliases.get(name)
        if tgt is None:
            return ('undefined', name)
        if tgt.startswith("unicode::"):
            return ('charby', tgt[9:])
        return ALIAS.get(tgt, ('unknown_alias', tgt))
    return ('unknown', repr(t))


def typed_from_dump(res):
    """-> (skip, [(name, atom, emis, boxed, texpr)]) from the real generator's output"""
    rules = res.typed_rule_list()
    defined = {r[0] for r in rules}
    aliases = res.aliases()
    sk = res.skip_def()
    if sk == "empty":
        skip = None
    elif isinstance(sk, list) and sk[0] == "atomicrep":
        skip = from_dump_texpr(sk[1], defined, aliases)
    else:
        skip = ('unknown', repr(sk))
    return skip, [(n, a, e, b == "true", from_dump_texpr(t, defined, aliases)) for (n, a, e, b, t, x) in rules]


# ------------------------------------------------------------ AST -> request for the model
def resolve_ident(name, idx):
    if name in idx:
        return "(rule %d)" % idx[name]
    if name in BUILTINS or name in ("WHITESPACE", "COMMENT"):
        return "(builtin %s)" % name
    un = unicode_names()
    if name in un:
        return "(unicode %d)" % un.index(name)
    return None


def ast_request(e, idx):
    """AST S-expression (parsed) -> text with resolved identifiers; None if an identifier is undefined"""
    if isinstance(e, str):
        return e
    if e[0] == "ident":
        r = resolve_ident(e[1], idx)
        return None if r is None else "(ident %s)" % r
    if e[0] in ("str", "insens"):
        return "(%s %s)" % (e[0], e[1])
    if e[0] == "skip":
        return "(skip (%s))" % " ".join(e[1])
    if e[0] == "tag" and len(e) == 3:
        # a node tag `#name = e` (cargo feature grammar-extras) is transparent for parsing and, with emit_tagged_node_reference off,
        # for the rule accessors: the model sees the tagged expression
        return ast_request(e[2], idx)
    parts = []
    for x in e[1:]:
        if isinstance(x, list):
            y = ast_request(x, idx)
            if y is None:
                return None
            parts.append(y)
        else:
            parts.append(x)
    return "(%s %s)" % (e[0], " ".join(parts))


def model_request(gid, res, which):
    ast = res.ast("ast_opt" if which == "opt" else "ast_raw")
    if ast is None:
        return None, None
    names = [n for (n, k, e) in ast]
    idx = {n: i + 1 for i, n in enumerate(names)}
    parts = []
    for (n, k, e) in ast:
        x = ast_request(e, idx)
        if x is None:
            return None, None
        parts.append("(rule %d %s %s)" % (idx[n], k, x))
    line = "(grammar %s %s (eoi 0) (ws %s) (cm %s) %s)" % (
        gid, which, idx.get("WHITESPACE", "none"), idx.get("COMMENT", "none"), " ".join(parts))
    return line, names


def from_model_texpr(t, names):
    if isinstance(t, str):
        return t
    h = t[0]
    rec = lambda x: from_model_texpr(x, names)  # noqa: E731
    if h in ("str", "insens"):
        return (h, gendump.unhex_bytes(t[1]))
    if h == "range":
        return ('range', int(t[1]), int(t[2]))
    if h == "charby":
        return ('charby', unicode_names()[int(t[1])])
    if h == "skipuntil":
        return ('skipuntil', [gendump.unhex_bytes(x) for x in t[1]])
    if h == "seq":
        return ('seq', t[1], [rec(x) for x in t[2:]])
    if h == "choice":
        return ('choice', [rec(x) for x in t[1:]])
    if h in ("opt", "pos", "neg", "push", "atomicrep"):
        return (h, rec(t[1]))
    if h == "rep":
        return ('rep', t[1], int(t[2]), kopt(t[3]), rec(t[4]))
    if h == "slice":
        return ('slice', int(t[1]), kopt(t[2]))
    if h == "rule":
        i = int(t[1])
        return ('rule', 'EOI' if i == 0 else names[i - 1], t[2])
    return ('unknown', repr(t))


def model_translate(items):
    """items: list of (gid, Result, which) -> {gid: (skip, [(name, atom, emis, texpr)]) | None}"""
    ok, exe = build.build_extraction("Gen")
    if not ok:
        raise RuntimeError(exe)
    lines, meta = [], {}
    for gid, res, which in items:
        line, names = model_request(gid, res, which)
        if line is None:
            meta[gid] = None
            continue
        meta[gid] = names
        lines.append(line)
    p = subprocess.run([exe], input="\n".join(lines) + "\n", capture_output=True, text=True)
    out = {}
    for ln in p.stdout.split("\n"):
        if not ln.startswith("(result "):
            continue
        sx = gendump.parse_sexp(ln)
        gid = sx[1]
        names = meta[gid]
        skip = None
        rules = []
        for f in sx[2:]:
            if f[0] == "skip":
                skip = None if f[1] == "empty" else from_model_texpr(f[1][1], names)
            else:
                i = int(f[1])
                rules.append((names[i - 1], f[2], f[3], from_model_texpr(f[4], names)))
        out[gid] = (skip, rules)
    for gid, names in meta.items():
        if names is None:
            out[gid] = None
    return out


# ------------------------------------------------------------ to model environments
def to_env(name, skip, rules, shapes=None):
    """(skip, [(name, atom, emis, boxed, texpr)]) -> vlib.texpr.Env for the Sem model driver"""
    env = Env(name, skip=skip, rules=[(n, a, e, t, b) for (n, a, e, b, t) in rules],
              shapes=shapes if shapes is not None else [('rule', n) for (n, a, e, b, t) in rules])
    names = set()

    def walk(t):
        if isinstance(t, tuple):
            if t[0] == 'charby':
                names.add(t[1])
            for x in t[1:]:
                if isinstance(x, tuple):
                    walk(x)
                elif isinstance(x, list):
                    for y in x:
                        walk(y)
    for r in rules:
        walk(r[4])
    if skip is not None:
        walk(skip)
    env.pred_names = sorted(names)
    env.raw_names = True          # the derive names rule structs r#NAME (stringify! of a raw identifier)
    return env


# ------------------------------------------------------------ corpus
HAND = [
    'a = { "a" ~ "b" }',
    'a = { "a" ~ b* ~ (c | b)? }\nb = @{ ^"y"+ }\nc = _{ !b ~ ANY }',
    'WHITESPACE = _{ " " }\nr = { "a" ~ "b"* ~ "c" }\nat = @{ "a" ~ r }\nna = !{ r ~ at }\nca = ${ "x" ~ na ~ "y" }',
    'WHITESPACE = _{ " " | NEWLINE }\nCOMMENT = _{ "#" ~ (!"#" ~ ANY)* ~ "#" }\nlist = { SOI ~ item* ~ EOI }\nitem = { ASCII_ALPHA+ ~ ("," ~ ASCII_DIGIT+)? }',
    'WHITESPACE = { " " }\nCOMMENT = { "/*" ~ (!"*/" ~ ANY)* ~ "*/" }\nr = { "a" ~ "b" }\ns = ${ r ~ "c" ~ r }',
    'r = { PUSH("a" | "b") ~ (POP ~ "x" | PEEK ~ "y")* ~ DROP? }',
    'r = { PUSH("a")* ~ "-" ~ PEEK[0..-1] ~ PEEK_ALL ~ POP_ALL }',
    'r = { (PUSH(ASCII_ALPHA) ~ ",")* ~ PEEK[1..] ~ PEEK[..2]? }',
    'str = ${ "\\"" ~ inner ~ "\\"" }\ninner = @{ (!("\\"" | "\\\\") ~ ANY | "\\\\" ~ ANY)* }',
    'expr = { term ~ (("+" | "-") ~ term)* }\nterm = { num | "(" ~ expr ~ ")" }\nnum = @{ ASCII_DIGIT+ }\nWHITESPACE = _{ " " }',
    'a = { b ~ "x" }\nb = _{ c | "y" }\nc = { "z" ~ a? }',
    'a = { &"ab" ~ ANY ~ !"c" ~ ANY }',
    'a = { ("a" | "ab") ~ "c" }',
    'a = { "a"{2} ~ "b"{1,} ~ "c"{,2} ~ "d"{1,2} }',
    'WHITESPACE = _{ " " }\na = { "a"{2} ~ "b"{1,} ~ "c"{,2} ~ "d"{1,2} }',
    'a = { LETTER+ ~ (NUMBER | PUNCTUATION)* }',
    'a = { (!NEWLINE ~ ANY)* ~ NEWLINE? }',
    'WHITESPACE = _{ " " }\na = @{ "x" ~ b }\nb = { "y" ~ "z" }\nc = !{ a ~ b }\nd = { c ~ a }',
    'a = _{ "a" ~ a? }',
    'ws_ref = { WHITESPACE ~ "x" }\nWHITESPACE = { "a" ~ "b" }',
    'COMMENT = _{ "#" }\na = { "x"+ }',
    'a = { "x" ~ ("y" ~ "z")* ~ "x" }',
    'a = { ^"hello" ~ \'a\'..\'f\' ~ ASCII_HEX_DIGIT ~ ASCII_ALPHANUMERIC }',
    'a = { (("a" ~ "b") ~ "c") ~ ("d" | ("e" | "f")) }',
    'a = { ((("a"))) }',
    'a = { "" ~ "a" }',
]


# grammars aimed at one mechanism each (terminals, stack discipline in failed attempts, predicates over the stack,
# check-path-only constructs reached through atomic rules, skip definitions of every shape, zero-width tokens)
TARGETED = [
    # skip-until with several terminators (the optimizer turns (!(a|b) ~ ANY)* into Skip([a, b])), earliest occurrence wins
    'until = @{ (!("a" | "b") ~ ANY)* }\nuntil_end = @{ (!("a" | "b") ~ ANY)* ~ "b" }\nlong = @{ (!("ab" | "b" | "ba") ~ ANY)* ~ ANY? }',
    'quoted = @{ "\'" ~ (!("%\'" | "\'") ~ ANY)* ~ "\'" }\nline = @{ (!NEWLINE ~ ANY)* }\ncm = @{ "/*" ~ (!"*/" ~ ANY)* ~ "*/" }',
    # a failed alternative / optional / iteration that pops an old entry and pushes another one
    'swap_opt = ${ PUSH("a") ~ (DROP ~ PUSH("b") ~ "!")? ~ "b"? ~ POP }\nswap_choice = ${ PUSH("a") ~ (POP ~ PUSH("b") ~ "!" | "a" ~ "b") ~ POP }\n'
    'swap_rep = ${ PUSH("a") ~ (DROP ~ PUSH("a" | "b") ~ "!")* ~ POP }\nswap_at = @{ PUSH("a") ~ (POP ~ PUSH("b") ~ "!")? ~ PEEK ~ "b"? }',
    # predicates over the stack, nested
    'dn = ${ PUSH("a") ~ !!POP ~ POP ~ EOI }\nns = ${ PUSH("a") ~ !(!POP ~ ANY) ~ POP }\nnd = ${ PUSH("a") ~ !(!DROP ~ ANY) ~ PEEK? }\n'
    'pp = ${ PUSH("a") ~ &(POP ~ "b") ~ PEEK ~ "b" }\nnp = ${ PUSH("a") ~ PUSH("b") ~ !(DROP ~ PEEK) ~ ANY* }',
    # DROP / POP / POP_ALL followed by a stack read, also through the check path (atomic rule, negative predicate)
    'dp = { PUSH("a") ~ PUSH("b") ~ DROP ~ PEEK }\ndpa = @{ PUSH("a") ~ PUSH("b") ~ DROP ~ PEEK }\ndd = { PUSH("a") ~ DROP ~ DROP }\n'
    'ddA = @{ PUSH("a") ~ DROP ~ DROP? ~ "b" }\npa = @{ PUSH("a") ~ PUSH("b") ~ POP_ALL ~ PEEK? ~ "a" }\nsl = @{ PUSH("a") ~ PUSH("b") ~ PEEK[-2..] ~ PEEK[-2..-1] ~ PEEK[0..-2]? }',
    # NEWLINE flavours on both paths
    'two = { "a" ~ NEWLINE ~ "b" }\ntwoA = @{ "a" ~ NEWLINE ~ "b" }\nlines = { ("a" ~ NEWLINE)* }\nlinesA = @{ ("a" ~ NEWLINE)* ~ "a"? }',
    # skip given back after a failed iteration, on both paths, in and under atomic rules
    'WHITESPACE = _{ " " }\nitem = { "x" }\nlist = !{ item* }\nlist1 = !{ item+ }\nbracket = @{ "[" ~ list ~ "]" }\ntight = @{ list ~ "!" }\nouter = { bracket ~ "." }\ncnt = !{ item{2,3} ~ "." }\ncntA = @{ cnt ~ "!" }',
    # COMMENT without WHITESPACE, WHITESPACE without COMMENT, non-silent ones followed by tokens
    'COMMENT = _{ "/*" ~ (!"*/" ~ ANY)* ~ "*/" }\na = { "a" }\nb = { "b" }\npair = { a ~ b }\nmany = { a* }\nagain = !{ a ~ b }\nreenter = @{ again }',
    'WHITESPACE = @{ " " }\nCOMMENT = @{ "#" ~ (\'a\'..\'c\')* ~ "#" }\na = { "a" }\nb = { "b" }\npair = { a ~ b }\nlist = { a* }\nfile = { SOI ~ a ~ b ~ EOI }',
    # a skip rule that touches the stack and fails half-way (COMMENT only / WHITESPACE only / both)
    'COMMENT = _{ "#" ~ PUSH("=") ~ "#" ~ POP }\nword = @{ ASCII_ALPHA+ }\nmain = { PUSH(word) ~ ("-" | "#" | "=")* ~ POP }\nlevel = { PUSH(word) ~ ("-" | "#" | "=")* ~ PEEK_ALL }',
    'WHITESPACE = _{ " " ~ PUSH("=")? ~ "." }\nword = @{ ASCII_ALPHA+ }\nmain = { PUSH(word) ~ (" " | "=")* ~ POP }',
    # repetitions whose iterations consume nothing but change the stack (they end when the stack is empty)
    'clear = { PUSH("a") ~ PUSH("b") ~ DROP* ~ PEEK_ALL ~ "c" }\nclear_opt = { PUSH("a") ~ PUSH("b") ~ DROP* ~ PEEK_ALL ~ "a"? }\nindent = { PUSH(" "*) ~ "x" }\nunwind = { PUSH("zz") ~ indent ~ indent ~ POP* }\npops = ${ PUSH("a") ~ PUSH("") ~ POP+ ~ "b" }',
    # a succeeding look-ahead that touches the stack, followed by a repetition over the stack (ends only if the predicate restored)
    'fence = { PUSH("ab") ~ &(PUSH(" "*) ~ "ab") ~ PEEK* ~ DROP }\nlk = ${ PUSH("a") ~ &(POP ~ PUSH("b")) ~ PEEK ~ "b"? }\nlook = { &PUSH("a") ~ "a" ~ PEEK_ALL ~ "b" }\nlookA = @{ &PUSH("a") ~ "a" ~ PEEK_ALL ~ "b" }',
    # rules whose expression may or may not end with EOI; full parse with trailing blanks / comments
    'WHITESPACE = _{ " " | "\\t" }\nCOMMENT = _{ "#" ~ (!NEWLINE ~ ANY)* }\nword = @{ ASCII_ALPHA+ }\nline = { word+ ~ (NEWLINE | EOI) }\nsil = _{ word ~ (";" ~ EOI | word) }\nna = !{ word+ }\nfile = { SOI ~ word* ~ EOI }',
    # user rules named like Unicode properties / built-ins (they shadow them) and referenced
    'NUMBER = @{ ASCII_DIGIT+ ~ ("." ~ ASCII_DIGIT+)? }\nLETTER = { \'a\'..\'c\' | "_" }\nname = @{ LETTER ~ (LETTER | ASCII_DIGIT)* }\nsum = { (NUMBER | name) ~ ("+" ~ (NUMBER | name))* }',
    # rules named like Rust primitive types / prelude items (pest reserves keywords only), of every rule kind
    'WHITESPACE = _{ " " }\nchar = { !("\\"" | "\\\\") ~ ANY | "\\\\" ~ ANY }\nstr = ${ "\\"" ~ char* ~ "\\"" }\nbool = { "true" | "false" }\nusize = @{ ASCII_DIGIT+ }\nOption = { "?" ~ value }\nu8 = _{ "(" ~ value ~ ")" }\ni32 = !{ "[" ~ (value ~ ("," ~ value)*)? ~ "]" }\nvalue = { str | bool | usize | Option | u8 | i32 }',
    # no normal rule at all (only silent / ! / @ / $ rules) with WHITESPACE and COMMENT defined: the skip type must still be built
    'WHITESPACE = _{ " " | "\\t" }\nCOMMENT = _{ "#" ~ (!NEWLINE ~ ANY)* }\nident = @{ ASCII_ALPHA+ }\nlist = !{ ident ~ ("," ~ ident)* }\nitems = _{ ident+ }\npair = ${ ident ~ "=" ~ ident }',
    # a failed optional that pops an old entry, pushes an EMPTY one and fails; then a repetition over PEEK (ends only if restored)
    'entry = { PUSH(ASCII_ALPHA+) ~ (DROP ~ PUSH(" "*) ~ "=" ~ DROP ~ PUSH(ASCII_DIGIT+))? ~ ":" ~ PEEK* ~ DROP }',
    # zero-width tokens under an optional
    'call = { name ~ "(" ~ args? ~ ")" }\nname = { "f" }\nargs = { (arg ~ ("," ~ arg)*)? }\narg = { "1" }\ntail = { "x"* }\nm = { "y" ~ tail? }\nend = { "a" ~ EOI? }',
    # insensitive / ranges / multi-byte
    'kw = @{ ^"ab" }\nwords = @{ (^"from" | ANY)* }\nrg = @{ \'b\'..\'d\' ~ \'a\'..\'a\' }\nmb = @{ "é" ~ "=" ~ "éé" }',
    # case-insensitive literals with non-ASCII letters fold ASCII letters only (pest: eq_ignore_ascii_case)
    'list = { entry ~ ("," ~ entry)* }\nentry = { kw | word }\nkw = { ^"\u00e9a" }\nword = @{ (!"," ~ ANY)+ }',
    # SOI / EOI inside, optional sign at SOI
    'file = { SOI ~ "b"+ ~ EOI }\nnum = @{ (SOI ~ "-")? ~ ASCII_DIGIT* }\ninner = @{ !SOI ~ ANY }\nmid = { "a" ~ EOI ~ "b"? }',
]


def repo_grammars():
    out = []
    for p in ["derive/tests/grammar.pest", "generator/tests/syntax.pest", "generator/tests/grammar.pest", "generator/tests/test.pest"]:
        fp = os.path.join(REPO, p)
        if os.path.exists(fp):
            out.append(open(fp).read())
    for d, _, fs in os.walk(os.path.join(REPO, "derive")):
        for f in fs:
            if f.endswith(".pest") and os.path.join(d, f) not in [os.path.join(REPO, "derive/tests/grammar.pest")]:
                out.append(open(os.path.join(d, f)).read())
    return out


# ------------------------------------------------------------ structured random grammars
LITS = ['"a"', '"b"', '"ab"', '"c"', '"x"', '^"a"', '^"bC"', '"é"', '""']
RANGES = ["'a'..'c'", "'0'..'9'", "'a'..'z'"]
BI = ["ANY", "ASCII_DIGIT", "ASCII_ALPHA", "ASCII_HEX_DIGIT", "NEWLINE", "SOI", "EOI", "ASCII_ALPHANUMERIC", "ASCII"]
UNI = ["LETTER", "NUMBER", "UPPERCASE_LETTER", "ALPHABETIC"]
STK = ["PEEK", "POP", "DROP", "PEEK_ALL", "POP_ALL", "PEEK[..]", "PEEK[0..1]", "PEEK[-1..]", "PEEK[..-1]", "PEEK[1..2]", "PEEK[-2..-1]", "PEEK[0..]"]


def rand_expr(rng, depth, names, stacky, head=False):
    """pest syntax; `names` = rules that may be referenced (later ones, to keep most grammars non-left-recursive)"""
    r = rng.below(100)
    if depth <= 0 or r < 30:
        k = rng.below(100)
        if k < 45:
            return rng.choice(LITS[:8] if head else LITS)
        if k < 55:
            return rng.choice(RANGES)
        if k < 70:
            return rng.choice(BI)
        if k < 75:
            return rng.choice(UNI)
        if k < 85 and stacky:
            return rng.choice(STK)
        if names:
            return rng.choice(names)
        return rng.choice(LITS[:5])
    if r < 50:
        n = 2 + rng.below(3)
        return "(" + " ~ ".join([rand_expr(rng, depth - 1, names, stacky, head)] + [rand_expr(rng, depth - 1, names, stacky) for _ in range(n - 1)]) + ")"
    if r < 65:
        n = 2 + rng.below(3)
        return "(" + " | ".join(rand_expr(rng, depth - 1, names, stacky, head) for _ in range(n)) + ")"
    inner = rand_expr(rng, depth - 1, names, stacky, head)
    if r < 72:
        return inner + "?"
    if r < 80:
        return inner + "*"
    if r < 85:
        return inner + "+"
    if r < 90:
        return inner + rng.choice(["{2}", "{1,}", "{,2}", "{1,2}", "{0,1}", "{3}"])
    if r < 94:
        return "&" + inner
    if r < 97:
        return "!" + inner
    if stacky:
        return "PUSH(" + inner + ")"
    return "(" + inner + ")"


def rand_grammar(rng):
    n = 1 + rng.below(5)
    names = ["r%d" % i for i in range(n)]
    stacky = rng.chance(1, 3)
    lines = []
    wsmode = rng.below(6)
    if wsmode in (1, 3, 5):
        lines.append(rng.choice(['WHITESPACE = _{ " " }', 'WHITESPACE = { " " }', 'WHITESPACE = _{ " " | NEWLINE }', 'WHITESPACE = { " "+ }']))
    if wsmode in (2, 3):
        lines.append(rng.choice(['COMMENT = _{ "#" ~ (!"#" ~ ANY)* ~ "#" }', 'COMMENT = { "#" ~ (!NEWLINE ~ ANY)* }', 'COMMENT = _{ "#" }']))
    for i, nm in enumerate(names):
        mod = rng.choice(["", "", "", "_", "@", "$", "!"])
        later = names[i + 1:]
        if rng.chance(1, 8):
            later = names        # allow recursion sometimes (the validator filters left recursion)
        if wsmode and rng.chance(1, 10):
            later = later + ["WHITESPACE"]
        lines.append("%s = %s{ %s }" % (nm, mod, rand_expr(rng, 3, later, stacky, head=True)))
    return "\n".join(lines)
