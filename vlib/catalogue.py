"""The fixed catalogues of typed-node shapes (rtcat) and their input sets.
Families:  bounds (C19), stack (C05), slices (C06), misc/pairs (C03, C08, C09, C10, C17, C18)."""
import itertools

from .texpr import *  # noqa: F401,F403
from .texpr import Env, S, I, R, seq, choice, opt, rep, star, plus, pos, neg, push, rule


def strings_upto(alpha, n):
    out = []
    for k in range(n + 1):
        for t in itertools.product(alpha, repeat=k):
            out.append(b"".join(t))
    return out


WS_RULE = ('ws', 'inh', 'both', S(' '), False)


# ------------------------------------------------------------------ bounds (C19)
def fam_bounds(tier):
    hi = 3 if tier == 'quick' else 4
    envs = []
    operands = {
        'str': S('x'),
        'cho': choice(S('xy'), S('x')),
        'nest': rep('off', 1, 2, S('x')),
        'stk': choice(seq('off', 'pop', S('!')), push(S('x'))),
    }
    # operands that can match WITHOUT consuming: only under an upper bound (an unbounded repetition of them never ends)
    nullable = {
        'nul': opt(S('x')),
        'lk': pos(S('x')),
        'nst': rep('off', 0, 1, S('x')),
    }
    operands.update(nullable)
    for oname, op in operands.items():
        for k in ('on', 'off'):
            shapes = []
            for mn in range(hi + 1):
                if oname not in nullable:
                    shapes.append(('node', True, rep(k, mn, None, op)))
                for mx in range(hi + 1):
                    shapes.append(('node', True, rep(k, mn, mx, op)))
            env = Env('bd_%s_%s' % (oname, k), skip=rule('ws', 'off'), rules=[WS_RULE], shapes=shapes)
            env.alpha = [b'x', b' '] + ([b'y'] if oname == 'cho' else []) + ([b'!'] if oname == 'stk' else [])
            env.maxlen = (6 if tier == 'quick' else 8) if len(env.alpha) == 2 else (5 if tier == 'quick' else 6)
            env.family = 'bounds'
            envs.append(env)
    # fixed arrays, pairs, optionals, skip-n-chars, skip-repeat
    shapes = []
    for n in range(4):
        shapes.append(('node', True, ('arr', n, S('x'))))
        shapes.append(('node', True, ('arr', n, choice(S('xy'), S('x')))))
        shapes.append(('node', True, ('skipchars', n)))
    shapes += [
        ('node', True, ('pair', S('x'), S('y'))),
        ('node', True, ('pair', opt(S('x')), ('arr', 2, S('y')))),
        ('node', True, opt(S('xy'))),
        ('node', True, opt(('pair', S('x'), S('y')))),
        ('node', True, ('atomicrep', S('x'))),
        ('node', True, ('atomicrep', choice(S('xy'), S('y')))),
        ('node', True, ('atomicrep', ('pair', S('x'), opt(S('y'))))),
        ('node', True, ('pair', ('atomicrep', S('x')), S('y'))),
        ('node', True, ('arr', 2, rep('on', 0, 2, S('x')))),
        # bounded repetitions of operands that consume nothing but change the stack
        ('node', True, seq('off', push(S('x')), push(S('y')), push(S('x')), rep('off', 0, 2, 'drop'), 'peek')),
        ('node', True, seq('off', push(S('x')), push(S('y')), push(S('x')), rep('off', 1, 3, 'drop'), opt('peek'), S('y'))),
        ('node', True, seq('off', push(S('x')), push(S('y')), rep('off', 0, 3, neg('pop')), 'peek')),
        ('node', True, seq('off', rep('off', 0, 3, push(S(''))), 'peekall', S('x'))),
        # an optional that pushes and then fails, followed by a stack reader (parse AND check path must undo the push)
        ('node', True, seq('off', opt(seq('off', push(S('x')), S('y'))), opt('peek'), S('x'))),
        ('node', True, seq('off', push(S('x')), opt(seq('off', push(S('xy')), S('y'))), 'peek')),
        ('node', True, ('pair', opt(('pair', push(S('x')), S('y'))), opt('peekall'))),
        # a failed optional / pair that pops an old entry and pushes another one (same height, different content)
        ('node', True, seq('off', push(S('x')), opt(seq('off', 'drop', push(S('y')), S('x'))), 'peek')),
        ('node', True, seq('off', push(S('x')), opt(('pair', 'pop', ('pair', push(S('y')), S('x')))), opt('peek'), S('y'))),
        ('node', True, seq('off', push(S('x')), rep('off', 0, 2, seq('off', 'drop', push(S('y')), S('x'))), 'peek')),
        # unbounded repetitions of stack operations: every iteration succeeds without consuming until the stack is empty
        ('node', True, seq('off', push(S('x')), push(S('y')), rep('off', 0, None, 'drop'), 'peekall', S('x'))),
        ('node', True, seq('off', push(S('x')), push(S('')), push(S('')), rep('off', 1, None, 'pop'), opt('peek'), S('y'))),
        ('node', True, seq('on', push(S('x')), push(S('y')), rep('on', 0, None, 'drop'), opt('peek'), S('y'))),
    ]
    env = Env('bd_misc', skip=rule('ws', 'off'), rules=[WS_RULE], shapes=shapes)
    env.alpha = [b'x', b'y', b' ', 'é'.encode()]
    env.maxlen = 5 if tier == 'quick' else 6
    env.family = 'bounds'
    envs.append(env)
    # skip nodes WITH a stack effect (used directly; the generator's skip never has one): a unit whose element fails must give back the
    # skip's pushes / drops as well as its position
    for sname, sk in (('push', push(S(' '))), ('drop', ('pair', S(' '), 'drop'))):
        shapes = []
        for mn, mx in ((0, None), (1, None), (2, None), (0, 2), (1, 3), (2, 2)):
            shapes.append(('node', True, seq('off', rep('on', mn, mx, S('x')), opt('peekall'), opt(S('y')))))
        shapes.append(('node', True, seq('off', push(S('y')), push(S('x')), rep('on', 0, 4, S('x')), S(' '), S('y'), 'peek')))
        shapes.append(('node', True, seq('on', S('x'), S('x'), opt('popall'), opt(S('y')))))
        env = Env('bd_sk%s' % sname, skip=sk, rules=[], shapes=shapes)
        env.alpha = [b'x', b'y', b' ']
        env.maxlen = 5 if tier == 'quick' else 6
        env.extra = [b'yxx yx', b'yxx yy', b'x x  y ', b'x  x y']
        env.family = 'bounds'
        envs.append(env)
    return envs


# ------------------------------------------------------------------ stack (C05)
def fam_stack(tier):
    muts = {
        'pa': push(S('a')),
        'pb': push(S('b')),
        'pop': 'pop',
        'drop': 'drop',
        'popall': 'popall',
        'pab': seq('off', push(S('a')), push(S('b'))),
        'dp': seq('off', 'drop', push(S('b'))),
    }

    def failing(m):      # applies the mutation, then needs an "x"
        return seq('off', m, S('x'))

    ctxs = {
        'cho': lambda body: choice(body, 'empty'),
        'opt': lambda body: opt(body),
        'rep': lambda body: rep('off', 0, 2, body),
        'pos': lambda body: pos(body),
        'neg': lambda body: neg(body),
        'optok': lambda body: seq('off', opt(body), S('y')),   # inner success whose enclosing sequence may still fail
        'arep': lambda body: ('atomicrep', body),             # the implicit-skip repetition (AtomicRepeat): iterations restore too
    }
    observers = {'peek': 'peek', 'peekall': 'peekall', 'sl': ('slice', 0, None)}
    envs = []
    shapes = []
    # depth 1: prefix pushes; ctx(failing(m)); observer
    for cn, c in ctxs.items():
        for mn, m in muts.items():
            for on, o in observers.items():
                if tier == 'quick' and on == 'sl' and mn in ('pb', 'dp'):
                    continue
                shapes.append(('node', True, seq('off', push(S('a')), push(S('b')), c(failing(m)), o)))
    # depth 2: ctx1( m1 ; ctx2(failing(m2)) ; "z" ) ; observer   -- the inner attempt may succeed while the outer fails
    inner_ctx = ['cho', 'opt', 'rep', 'pos', 'neg', 'arep']
    outer_ctx = ['cho', 'opt', 'rep', 'pos', 'neg']
    m1s = ['pa', 'pop', 'drop'] if tier == 'quick' else ['pa', 'pop', 'drop', 'popall', 'pab']
    m2s = ['pb', 'pop', 'drop', 'popall'] if tier == 'quick' else list(muts)
    for c1 in outer_ctx:
        for c2 in inner_ctx:
            for m1 in m1s:
                for m2 in m2s:
                    body = seq('off', muts[m1], ctxs[c2](failing(muts[m2])), S('z'))
                    shapes.append(('node', True, seq('off', push(S('a')), push(S('b')), ctxs[c1](body), 'peekall')))
    # the witness family of finding F1 (inner success forgets a pop, outer failure cannot undo it)
    shapes.append(('node', True, seq('off', push(S('a')), choice(seq('off', opt('pop'), S('x')), S('')), 'peek')))
    shapes.append(('node', True, seq('off', push(S('a')), push(S('b')), opt(seq('off', opt(seq('off', 'pop', 'pop')), S('x'))), 'peekall')))
    shapes.append(('node', True, seq('off', push(S('a')), rep('off', 0, None, seq('off', choice('drop', S('q')), S('x'))), 'peek')))
    # depth 3 (thorough)
    if tier != 'quick':
        for c1 in ['cho', 'rep', 'neg']:
            for c2 in ['opt', 'pos']:
                for c3 in ['cho', 'rep']:
                    for m in ['pop', 'pa', 'popall']:
                        b3 = ctxs[c3](failing(muts[m]))
                        b2 = ctxs[c2](seq('off', muts['drop'], b3, S('z')))
                        b1 = ctxs[c1](seq('off', muts['pb'], b2, S('w')))
                        shapes.append(('node', True, seq('off', push(S('a')), push(S('b')), b1, 'peekall')))
    # split into environments of ~60 shapes (compile-time balance)
    for k in range(0, len(shapes), 60):
        env = Env('st_%d' % (k // 60), skip=None, rules=[], shapes=shapes[k:k + 60])
        env.alpha = [b'a', b'b', b'x', b'z', b'y']
        env.maxlen = 5 if tier == 'quick' else 6
        env.prefix = b'ab'      # every shape starts with PUSH("a") PUSH("b")
        env.family = 'stack'
        envs.append(env)
    # predicates nested in predicates where the OUTER one starts on a non-empty stack, its operand empties the stack and the INNER one
    # then runs on the empty stack (snapshot / restore pairing when a snapshot is taken of an empty stack)
    nest = []
    for emptier in ('drop', 'pop', 'popall'):
        for inner in (pos(S('a')), neg('any'), neg(S('b'))):
            for inside in ('peek', 'empty'):
                for outer in (pos, neg):
                    for outside in ('pop', 'peekall'):
                        nest.append(('node', True, seq('off', push(S('a')), outer(seq('off', emptier, inner, inside)), outside)))
    nest.append(('node', True, seq('off', push(S('a')), push(S('b')), neg(seq('off', 'popall', neg(S('c')))), 'peek', ('slice', 0, 1))))
    env = Env('st_nest', skip=None, rules=[], shapes=nest)
    env.alpha = [b'a', b'b', b'c']
    env.maxlen = 4 if tier == 'quick' else 5
    env.extra = [b'abbac', b'abbab', b'aaaaa']
    env.family = 'stack'
    envs.append(env)
    return envs


# ------------------------------------------------------------------ slices (C06)
def fam_slices(tier):
    lim = 3 if tier == 'quick' else 6
    envs = []
    for ctx in ('off', 'on'):
        shapes = []
        for a in range(-lim, lim + 1):
            for b in [None] + list(range(-lim, lim + 1)):
                # stack content and depth come from the input: (PUSH("ab"|"a"|"b"|""))* up to 4, then "-", then the slice
                shapes.append(('node', True, seq(ctx, rep(ctx, 0, 4, push(choice(S('ab'), S('a'), S('b')))), S('-'), ('slice', a, b))))
        for k in range(0, len(shapes), 64):
            env = Env('sl_%s_%d' % (ctx, k // 64), skip=rule('ws', 'off'), rules=[WS_RULE], shapes=shapes[k:k + 64])
            env.family = 'slices'
            env.alpha = [b'a', b'b']
            envs.append(env)
    # the other stack built-ins in atomic and non-atomic context, incl. the empty stack and PUSH of an empty match
    shapes = []
    for ctx in ('off', 'on'):
        pre = rep(ctx, 0, 3, push(choice(S('ab'), S('a'), S('b'))))
        for op in ['peek', 'pop', 'drop', 'peekall', 'popall', seq(ctx, 'pop', 'pop'), seq(ctx, 'drop', 'peek'),
                   seq(ctx, 'popall', 'peekall'), seq(ctx, push(S('')), 'peek', ('slice', -1, None)),
                   seq(ctx, push(seq(ctx, S('a'), S('b'))), S('-'), 'peek')]:
            shapes.append(('node', True, seq(ctx, pre, S('-'), op)))
    env = Env('sl_ops', skip=rule('ws', 'off'), rules=[WS_RULE], shapes=shapes)
    env.family = 'slices'
    env.alpha = [b'a', b'b']
    envs.append(env)
    return envs


def slice_inputs(env, tier):
    """prefix (pushed words, optionally separated by blanks) + '-' + everything up to length 4/5 over {a,b}"""
    pre = [b''] + [b''.join(t) for k in (1, 2, 3, 4) for t in itertools.product([b'a', b'b'], repeat=k)]
    pre += [b'a b', b'ab a', b'a  b a', b'b a b a', b'ab ab ab ab']
    suf = strings_upto([b'a', b'b'], 3 if tier == 'quick' else 5) + [b' a', b'a b', b' ab']
    out = []
    for p in pre:
        for s in suf:
            out.append(('str', p + b'-' + s, 0, 0))
            out.append(('str', p + b' - ' + s, 0, 0))
    return out


# ------------------------------------------------------------------ misc: leaves, predicates, rule kinds
def fam_misc(tier):
    e_acute = 'é'.encode()
    rules = [
        WS_RULE,
        ('cm', 'inh', 'both', seq('inh', S('#'), star('inh', seq('inh', neg(S('#')), 'any')), S('#')), False),
        ('n', 'inh', 'both', seq('inh', S('a'), star('inh', S('b'))), False),                   # normal
        ('s', 'inh', 'expr', choice(rule('n'), S('c')), False),                                    # silent
        ('at', 'true', 'span', seq('off', rule('n', 'off'), plus('off', S('c'))), False),         # atomic
        ('ca', 'true', 'both', seq('off', rule('n', 'off'), opt(rule('s', 'off'))), False),       # compound atomic
        ('na', 'false', 'both', seq('on', rule('n', 'on'), rule('s', 'on')), False),              # non-atomic
        ('top', 'inh', 'both', seq('inh', rule('at'), star('inh', choice(rule('ca'), rule('na'), rule('s')))), False),
        ('inat', 'true', 'both', seq('off', S('a'), rule('na', 'off'), S('c')), False),           # ! inside @ context
        ('rec', 'inh', 'both', choice(seq('inh', S('('), rule('rec'), S(')')), S('a')), True),    # recursive (boxed)
        ('pred', 'inh', 'both', seq('inh', pos(rule('n')), neg(rule('at')), neg(neg(S('a'))), 'any', 'any'), False),
        ('lst', 'inh', 'both', seq('inh', 'soi', star('inh', rule('n')), rule('EOI')), False),
        ('bnd', 'inh', 'both', seq('inh', rep('inh', 1, 3, rule('n')), opt(S('c'))), False),     # counted repetition of rules: skipped tokens in between
        ('bx', 'inh', 'both', rep('inh', 2, 2, rule('s')), False),
        ('ar', 'inh', 'both', seq('inh', ('arr', 2, rule('s')), opt(('arr', 3, rule('n')))), False),   # [T; N] of token-bearing nodes
        ('pr', 'inh', 'both', ('pair', rule('n'), opt(('pair', rule('s'), rule('at')))), False),          # (T1, T2) of token-bearing nodes
    ]
    shapes = [('rule', r[0]) for r in rules] + [('rule', 'EOI')]
    env = Env('mi_rules', skip=choice(rule('ws', 'off'), rule('cm', 'off')), rules=rules, shapes=shapes)
    env.alpha = [b'a', b'b', b'c', b' ', b'#', b'(', b')']
    env.maxlen = 4 if tier == 'quick' else 5
    env.extra = [b'a b c', b'ab #x# b', b'a #', b'((a))', b'(a', b'abcc ab', b'ab # ab', b'a b  c a', b'#a# a']
    env.family = 'misc'
    env.audit = True
    leaves = [
        ('node', True, I('aB')),
        ('node', True, seq('off', I('éx'), 'any')),
        ('node', True, R('a', 'c')),
        ('node', True, R('à', '中')),
        ('node', True, 'any'),
        ('node', True, seq('off', 'soi', 'any', 'eoi')),
        ('node', True, 'newline'),
        ('node', True, seq('off', star('off', 'newline'), 'eoi')),
        ('node', True, ('skipuntil', [b'ab', b'c'])),
        ('node', True, seq('off', ('skipuntil', [e_acute]), 'any')),
        ('node', True, seq('off', ('skipuntil', [b'b']), S('b'))),
        ('node', True, ('skipuntil', [b''])),
        ('node', True, seq('off', ('skipchars', 2), 'eoi')),
        ('node', True, ('charby', 'ALPHABETIC')),
        ('node', True, seq('off', star('off', ('charby', 'UPPERCASE_LETTER')), ('charby', 'EMOJI'))),
        ('node', True, seq('off', neg('eoi'), 'any', pos('any'))),
        ('node', True, seq('off', 'any', 'soi')),
        ('node', True, seq('off', star('off', seq('off', neg(S('b')), 'any')), 'eoi')),
        ('node', True, choice('fail', 'empty')),
        ('node', True, seq('off', 'empty', 'fail')),
    ]
    # what pest's optimizer rewrites INTO the skip-until node: (!(t1 | t2 ..) ~ ANY)*  -- same verdict and offset on every input form
    def unskip(ts):
        return star('off', seq('off', neg(choice(*[S(t) for t in ts]) if len(ts) > 1 else neg(S(ts[0]))), 'any'))
    pairs = []
    for i, sh in enumerate(list(leaves)):
        e = sh[2]
        if isinstance(e, tuple) and e[0] == 'skipuntil' and all(e[1]):
            pairs.append((i, len(leaves)))
            leaves.append(('node', True, unskip(e[1])))
    env2 = Env('mi_leaves', skip=None, rules=[], shapes=leaves)
    env2.rewrite_pairs = pairs
    env2.alpha = [b'a', b'B', b'b', b'c', e_acute, '中'.encode(), '\U0001F600'.encode(), b'\r', b'\n', b'A']
    env2.maxlen = 3 if tier == 'quick' else 4
    env2.family = 'misc'
    env2.pred_names = ['ALPHABETIC', 'UPPERCASE_LETTER', 'EMOJI']
    # reports that hold BOTH kinds of attempts in one entry: a keyword matched under a negative predicate (unexpected) and
    # a leaf rule that failed (expected) at the same position under the same enclosing rule, plus special errors next to rules
    rules3 = [
        ('kw', 'true', 'span', seq('off', choice(S('if'), S('el')), neg(R('a', 'z'))), False),
        ('ident', 'true', 'span', seq('off', neg(rule('kw', 'off')), R('a', 'z'), star('off', R('a', 'z'))), False),
        ('num', 'true', 'span', plus('off', R('0', '9')), False),
        ('atom', 'inh', 'both', choice(rule('ident'), rule('num')), False),
        ('main', 'inh', 'both', seq('inh', S('='), rule('atom')), False),
        ('two', 'inh', 'both', seq('inh', rule('atom'), S(','), neg(rule('num')), rule('atom')), False),
        ('stk', 'inh', 'both', seq('inh', opt(push(rule('num'))), S('='), choice(seq('inh', 'pop', rule('num')), rule('ident'))), False),
        # silent rules that can fail on a literal before any rule is attempted (the report then sits at the start of the input range)
        ('sl', 'inh', 'expr', seq('inh', S('='), rule('num')), False),
        ('sl2', 'inh', 'expr', choice(seq('inh', S('x'), S(',')), S('1')), False),
    ]
    env3 = Env('mi_mixed', skip=None, rules=rules3, shapes=[('rule', r[0]) for r in rules3])
    env3.alpha = [b'=', b'i', b'f', b'1', b',', b'x']
    env3.maxlen = 4 if tier == 'quick' else 5
    env3.extra = [b'=el', b'=elx', b'if,1', b'x,1', b'1,if', b'1=1x', b'1=if', b'=if1', b'x,if', b'1,1']
    env3.family = 'misc'
    env3.audit = True
    # backtracking that restarts a non-leaf rule BEFORE the furthest failure (a later alternative, the element after a failed
    # optional, the body after a successful look-ahead): the "by <rule>" context of the report
    rules4 = [
        ('one', 'inh', 'both', S('1'), False),
        ('two', 'inh', 'both', S('2'), False),
        ('first', 'inh', 'both', seq('inh', S('x'), S('y'), rule('one')), False),
        ('second', 'inh', 'both', seq('inh', S('x'), S('y'), rule('two')), False),
        ('alt', 'inh', 'both', choice(rule('first'), rule('second')), False),
        ('optf', 'inh', 'both', seq('inh', opt(rule('first')), rule('second')), False),
        ('look', 'inh', 'both', seq('inh', pos(rule('first')), rule('second')), False),
        ('deep', 'inh', 'both', choice(seq('inh', rule('alt'), S('!')), seq('inh', rule('second'), S('?'))), False),
    ]
    env4 = Env('mi_back', skip=None, rules=rules4, shapes=[('rule', r[0]) for r in rules4])
    env4.alpha = [b'x', b'y', b'1', b'2', b'!', b'z']
    env4.maxlen = 4 if tier == 'quick' else 5
    env4.family = 'misc'
    env4.audit = True
    return [env, env2, env3, env4]


# ------------------------------------------------------------------ uni: multi-byte alphabets (C09)
def fam_uni(tier):
    ea = 'é'.encode()
    zh = '中'.encode()
    em = '\U0001F600'.encode()
    rules = [
        ('w', 'inh', 'both', choice(S(' '), 'newline'), False),
        ('word', 'true', 'span', plus('off', seq('off', neg(choice(S(' '), 'newline', S('é'))), 'any')), False),
        ('pair', 'inh', 'both', seq('inh', push(rule('word')), S('é'), 'peek'), False),
        ('doc', 'inh', 'both', seq('inh', 'soi', star('inh', choice(rule('pair'), rule('word'))), rule('EOI')), False),
    ]
    env = Env('un_rules', skip=rule('w', 'off'), rules=rules, shapes=[('rule', r[0]) for r in rules])
    env.alpha = [b'a', ea, zh, em, b' ', b'\n']
    env.maxlen = 4 if tier == 'quick' else 5
    env.family = 'uni'
    shapes = [
        ('node', True, star('off', 'any')),
        ('node', True, star('off', R('a', '中'))),
        ('node', True, seq('off', I('éA'), star('off', 'any'))),
        ('node', True, seq('off', ('skipuntil', [zh, b'a']), opt('any'))),
        ('node', True, seq('off', ('skipuntil', [em[:2].hex() and em]), 'any')),
        ('node', True, star('off', ('skipchars', 2))),
        ('node', True, seq('off', push('any'), star('off', 'peek'), opt(seq('off', 'pop', 'eoi')))),
        ('node', True, seq('off', push(seq('off', 'any', 'any')), push('any'), 'peekall', ('slice', 0, 1), ('slice', -1, None))),
        ('node', True, star('off', seq('off', neg(S('中')), ('charby', 'ALPHABETIC')))),
        ('node', True, seq('off', star('off', 'newline'), pos('any'), ('arr', 2, 'any'))),
        ('node', True, star('off', choice(S('é'), S('中a'), I('A'), 'newline'))),
    ]
    env2 = Env('un_nodes', skip=None, rules=[], shapes=shapes)
    env2.alpha = [b'a', b'A', ea, zh, em, b'\r', b'\n']
    env2.maxlen = 3 if tier == 'quick' else 4
    env2.family = 'uni'
    # first / last code point of every UTF-8 lead-byte class (C2, DF, E0, E1, EC, ED, EE, EF, F0, F1, F4; assigned printable ones where the class has any, so that Rust's {:?} keeps them literal) and the other case of the
    # non-ASCII insensitive literal: alone, doubled, before and after an ASCII letter
    edge = ['\u0080', '\u07e0', '\u0800', '\u0e01', '\u0f40', '\u1000', '\uc000', '\ud7a3', '\ue000', '\uff01', '\ufffd',
            '\U00010000', '\U0003134a', '\U00040000', '\U0010ffff', '\u00c9']
    env2.extra = [x.encode('utf8') for c in edge for x in (c, c + c, c + 'a', 'a' + c, c + 'A', '\u00e9' + c, c + '\u00e9A')]
    env2.pred_names = ['ALPHABETIC']
    # CRLF texts under rules that take the CR as ordinary content: the furthest position can fall between CR and LF
    # (error location, line / column and head line of the report at such an offset)
    crlf_rules = [
        ('line', 'true', 'span', star('off', seq('off', neg(S('\n')), 'any')), False),
        ('field', 'true', 'span', star('off', seq('off', neg(choice(S(','), S('\n'))), 'any')), False),
        ('recend', 'inh', 'both', S('\r\n'), False),
        ('rec', 'inh', 'both', seq('inh', rule('field'), star('inh', seq('inh', S(','), rule('field'))), rule('recend')), False),
        ('recs', 'inh', 'both', seq('inh', plus('inh', rule('rec')), rule('EOI')), False),
    ]
    crlf_shapes = [('rule', r[0]) for r in crlf_rules]
    crlf_shapes += [('node', True, ('skipuntil', [b'\r\n', b'\n'])),
                    ('node', True, star('off', seq('off', neg(choice(S('\r\n'), S('\n'))), 'any'))),
                    ('node', True, ('skipuntil', [b'a,', b'\r\n\r'])),
                    ('node', True, star('off', seq('off', neg(choice(S('a,'), S('\r\n\r'))), 'any')))]
    env3 = Env('un_crlf', skip=None, rules=crlf_rules, shapes=crlf_shapes)
    env3.rewrite_pairs = [(len(crlf_rules), len(crlf_rules) + 1), (len(crlf_rules) + 2, len(crlf_rules) + 3)]
    env3.alpha = [b'a', b',', b'\r', b'\n']
    env3.maxlen = 4 if tier == 'quick' else 5
    env3.extra = [b'a,b\r\nc,d\r\n', b'abc\r\nxyz', b'a\r\n\r\nb', 'é,\r\n'.encode()]
    env3.family = 'uni'
    return [env, env2, env3]


def catalogue(tier):
    return fam_bounds(tier) + fam_stack(tier) + fam_slices(tier) + fam_misc(tier) + fam_uni(tier)


def boundaries(s):
    """char-boundary offsets of a UTF-8 byte string"""
    return [i for i in range(len(s) + 1) if i == len(s) or (s[i] & 0xC0) != 0x80]


def sub_inputs(strs, maxlen):
    """every Span(s, a, b) and Position(s, a) of the given strings (char boundaries, a <= b)"""
    out = []
    for s in strs:
        if len(s) > maxlen:
            continue
        bs = boundaries(s)
        for i, a in enumerate(bs):
            out.append(('pos', s, a, 0))
            for b in bs[i:]:
                out.append(('span', s, a, b))
    return out


def inputs_for(env, tier, forms=('str',)):
    """input list of an environment: exhaustive small strings (+ extras) as `&str`; with 'sub' in forms also
    every Span / Position sub-input of the shorter ones (all `str` cases come first)"""
    fam = getattr(env, 'family', '')
    if fam == 'slices':
        base = slice_inputs(env, tier)
        strs = [b for (_, b, _, _) in base]
        sub_max = 4 if tier == 'quick' else 5
        sub_src = [x for x in strs if len(x) <= sub_max][:: (7 if tier == 'quick' else 3)]
    else:
        strs = strings_upto(env.alpha, env.maxlen)
        pre = getattr(env, 'prefix', b'')
        strs = [pre + x for x in strs] + list(getattr(env, 'extra', []))
        base = [('str', x, 0, 0) for x in strs]
        if fam in ('misc', 'uni'):
            sub_max = env.maxlen * 4
            sub_src = strs
        else:
            sub_max = 3 + len(pre) if tier == 'quick' else 4 + len(pre)
            sub_src = strs
    out = list(base)
    if 'sub' in forms:
        subs = sub_inputs(sub_src, sub_max)
        # make sure the slice of every sub-input is also run on its own (fresh string)
        have = {x for (_, x, _, _) in base}
        extra = []
        for (form, x, a, b) in subs:
            sl = x[a:b] if form == 'span' else x[a:]
            if sl not in have:
                have.add(sl)
                extra.append(('str', sl, 0, 0))
        out += extra + subs
    return out
