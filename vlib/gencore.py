"""Generator-level machinery shared by C01, C02, C07, C11, C16, C20: the grammar corpus, V1 (real generator
output == Model/Translate.v), the derive corpus run (typed parser vs model vs PEG spec vs real pest)."""
import os
import re
import subprocess

from . import grammar, gendump, dcorp, build, rtcat
from .common import Rng, CACHE, log
from .core import MODEL_FLAGS

KINDS = [("", "normal"), ("_", "silent"), ("@", "atomic"), ("$", "compound"), ("!", "nonatomic")]


def nesting_grammar(ws, cm, depth):
    """k1{ k2{ body } } (depth 2) / k1{ k2{ k3{ body } } } (depth 3) for all kind tuples x three bodies"""
    lines = []
    if ws:
        lines.append('WHITESPACE = _{ " " }')
    if cm:
        lines.append('COMMENT = _{ "#" }')
    bodies = ['"a" ~ "b"', '"a"*', '"a" ~ "b"*']
    inner = []
    for (m, kn) in KINDS:
        for bi, b in enumerate(bodies):
            nm = "i_%s_%d" % (kn, bi)
            lines.append("%s = %s{ %s }" % (nm, m, b))
            inner.append(nm)
    mid = inner
    if depth >= 3:
        mid = []
        for (m, kn) in KINDS:
            for nm in inner:
                n2 = "m_%s_%s" % (kn, nm)
                lines.append('%s = %s{ "x" ~ %s ~ "x"* }' % (n2, m, nm))
                mid.append(n2)
    for (m, kn) in KINDS:
        for nm in mid:
            lines.append('o_%s_%s = %s{ "y" ~ %s ~ "y"* }' % (kn, nm, m, nm))
    return "\n".join(lines)


def compiled_corpus(tier):
    """grammars compiled through both derives (fixed, so that cargo's cache stays warm)"""
    texts = list(grammar.HAND) + list(grammar.TARGETED)
    combos = [(True, False), (True, True)] if tier == "quick" else [(False, False), (True, False), (False, True), (True, True)]
    for ws, cm in combos:
        texts.append(nesting_grammar(ws, cm, 2))
    if tier != "quick":
        texts.append(nesting_grammar(True, True, 3))
        texts += grammar.repo_grammars()[:2]
    rng = Rng(20260926)
    want = 40 if tier == "quick" else 400
    cand = [grammar.rand_grammar(rng.fork("c%d" % i)) for i in range(want * 3)]
    dgs = [dcorp.DG("g%d" % i, t, {"emit_rule_reference": True}) for i, t in enumerate(texts + cand)]
    ok = dcorp.prepare(dgs)
    fixed = [g for g in ok if int(g.name[1:]) < len(texts)]
    # fixed grammars outside the certified class (the repository's syntax.pest: `Choice = { .. | &"c" ~ Choice ~ .. }` recurses without
    # consuming and overflows the stack, in pest as well): kept, but run only on the inputs on which the model ends within its fuel
    wf_names = {g.name for g in wf_only(fixed)}
    for g in fixed:
        g.wf = g.name in wf_names
    # random grammars: only those the verified certificate checker wf_cert accepts (Model/Wf.v, with the inferred certificate):
    # pest's validator lets through repetitions over stack built-ins that can match the empty string for ever (POP_ALL*,
    # PEEK[..]* on an empty stack); they are outside the class "well-founded" of C11 and hang pest itself
    rnd = wf_only([g for g in ok if int(g.name[1:]) >= len(texts)])[:want]
    return fixed + rnd


def wf_only(gs):
    if not gs:
        return gs
    okm, exe = build.build_extraction("Sem")
    if not okm:
        raise RuntimeError(exe)
    lines = []
    for g in gs:
        had = g.env.preds
        if not had:         # the Unicode predicate tables are sampled later; the analysis does not look at them
            g.env.preds = {n: [] for n in getattr(g.env, "pred_names", [])}
        lines.append(g.env.env_sexp(MODEL_FLAGS))
        g.env.preds = had
        lines.append("(wf 0)")
    p = subprocess.run([exe], input="\n".join(lines) + "\n", capture_output=True, text=True)
    verdicts = [ln.split("|")[1] for ln in p.stdout.split("\n") if ln.startswith("WF|")]
    if len(verdicts) != len(gs):
        raise RuntimeError("wf filter: %d verdicts for %d grammars: %s" % (len(verdicts), len(gs), p.stderr[-300:]))
    return [g for g, v in zip(gs, verdicts) if v == "1"]


_run_cache = {}


def safe_inputs(g):
    """inputs_for(g); for a fixed grammar outside the well-founded class only those on which every entry point of every rule ends in
    the model (no FUEL): the others may recurse for ever in the real parser (stack overflow), which C11 excludes"""
    ins = dcorp.inputs_for(g)
    if getattr(g, "wf", True):
        return ins
    cached = getattr(g, "_safe_inputs", None)
    if cached is not None:
        return cached
    had = g.env.preds
    if not had:
        g.env.preds = {n: [] for n in getattr(g.env, "pred_names", [])}
    res = model_only([(g.env, ins)])
    g.env.preds = had
    bad = {hx for (sid, hx), f in res.items() if any("FUEL" in str(v) for v in f.values())}
    g._safe_inputs = [b for b in ins if (b.hex() if b else "-") not in bad]
    g.dropped_inputs = len(ins) - len(g._safe_inputs)
    return g._safe_inputs


def corpus_run(tier):
    if tier not in _run_cache:
        dgs = compiled_corpus(tier)
        run = dcorp.run_corpus("core_%s" % tier, dgs, safe_inputs, MODEL_FLAGS)
        _run_cache[tier] = (dgs, run)
    return _run_cache[tier]


def report_anomalies(ctx):
    """corpus grammars for which the real generator emits rule! arguments outside what Model/Translate.v describes (e.g. an
    `ignored` type other than generics::Skipped, i.e. a different trailing skip): the model does not cover that output"""
    seen = set()
    for (name, text, opts, what) in dcorp.ANOMALIES:
        if text in seen or len(seen) >= 3:
            continue
        seen.add(text)
        ctx.violation("the generator emits rule! arguments outside the generator model (%s)" % (what,),
                      {"grammar": text, "options": opts, "anomalies": what,
                       "broken": "V1 extract(generator(g)) is not in the image of Model/Translate.v"}, found_input=False)


# ------------------------------------------------------------ WHITESPACE / COMMENT forced atomic: the spec variant
def map_skip(t, f):
    if isinstance(t, tuple):
        h = t[0]
        if h == 'seq':
            return ('seq', f(t[1]), [map_skip(x, f) for x in t[2]])
        if h == 'rep':
            return ('rep', f(t[1]), t[2], t[3], map_skip(t[4], f))
        if h == 'rule':
            return ('rule', t[1], f(t[2]))
        if h == 'choice':
            return ('choice', [map_skip(x, f) for x in t[1]])
        if h in ('opt', 'pos', 'neg', 'push', 'atomicrep'):
            return (h, map_skip(t[1], f))
    return t


def ws_variant_env(g):
    """the environment in which WHITESPACE / COMMENT are matched atomically (what pest does): their own
    sequences / repetitions / rule references use SKIP = 0 and their inner tokens are suppressed"""
    from .texpr import Env
    rules = []
    changed = False
    for (n, a, e, body, boxed) in g.env.rules:
        if n in ("WHITESPACE", "COMMENT") and a != 'true':
            rules.append((n, 'true', e if e != 'span' else 'span', map_skip(body, lambda k: 'off'), boxed))
            changed = True
        else:
            rules.append((n, a, e, body, boxed))
    if not changed:
        return None
    env = Env(g.name, skip=g.env.skip, rules=rules, shapes=g.env.shapes, preds=g.env.preds)
    env.raw_names = True
    return env


def model_only(envs_inputs, flags=MODEL_FLAGS):
    """run only the model on (env, inputs) pairs -> {(shape_id, hex): fields}"""
    ok, exe = build.build_extraction("Sem")
    lines = []
    for env, ins in envs_inputs:
        lines.append(env.env_sexp(flags))
        lines.append("(clear)")
        lines += env.shape_sexps()
        for b in ins:
            lines.append("(in str %s 0 0)" % (b.hex() if b else "-"))
    p = subprocess.run([exe], input="\n".join(lines) + "\n", capture_output=True, text=True)
    out = {}
    for ln in p.stdout.split("\n"):
        if not ln:
            continue
        j = ln.rfind("|A:")
        if j >= 0:
            ln = ln[:j]
        sid, form, hx, ia, ib, f = rtcat.split_line(ln)
        out[(sid, hx)] = f
    return out


# ------------------------------------------------------------ pest tokens -> indices, pruning
RE_NAME = re.compile(r"\((\w+) ")


def pest_to_idx(pe, names):
    return RE_NAME.sub(lambda m: "(%d " % names.index(m.group(1)), pe)


def parse_toks(s):
    """'(1 0 3 (2 0 1))(4 3 3)' -> list of [r, s, e, children]"""
    out = []
    stack = [out]
    i = 0
    n = len(s)
    while i < n:
        c = s[i]
        if c == '(':
            j = i + 1
            while s[j] not in ' ()':
                j += 1
            r = int(s[i + 1:j])
            k = j + 1
            while s[k] not in ' ()':
                k += 1
            a = int(s[j + 1:k])
            m = k + 1
            while s[m] not in ' ()':
                m += 1
            b = int(s[k + 1:m])
            node = [r, a, b, []]
            stack[-1].append(node)
            stack.append(node[3])
            i = m
        elif c == ')':
            stack.pop()
            i += 1
        else:
            i += 1
    return out


def prune(toks, atomic_idx):
    """the documented difference: descendants of atomic / compound-atomic tokens are removed"""
    return [[r, a, b, [] if r in atomic_idx else prune(ch, atomic_idx)] for (r, a, b, ch) in toks]


def show_toks(toks):
    return "".join("(%d %d %d%s)" % (r, a, b, "".join(" " + show_toks([c]) for c in ch)) for (r, a, b, ch) in toks)


def uses_stack(g):
    txt = g.text
    return any(k in txt for k in ("PUSH", "POP", "PEEK", "DROP"))


# the aliases of the emitted `generics` module that wrap runtime repetitions (everything else there is a re-export, a seq! /
# choices! instantiation, or the Skipped type, which the translation model covers): what Model/Translate.v's TRep k mn mx stands
# for.  predefined_node::RepMinMax<T, IGNORED, SKIP, MIN, MAX>, RepMin<T, IGNORED, SKIP, MIN>, RepExact<T, IGNORED, SKIP, N>.
U = "::core::primitive::usize"
GENERICS_MODEL = {
    "Rep": "<'i,constSKIP:%s,T>=predefined_node::Rep<T,Skipped<'i>,SKIP>" % U,
    "RepOnce": "<'i,constSKIP:%s,T>=predefined_node::RepOnce<T,Skipped<'i>,SKIP>" % U,
    "RepExact": "<'i,constSKIP:%s,T,constN:%s>=predefined_node::RepExact<T,Skipped<'i>,SKIP,N>" % (U, U),
    "RepMin": "<'i,constSKIP:%s,T,constMIN:%s>=predefined_node::RepMin<T,Skipped<'i>,SKIP,MIN>" % (U, U),
    "RepMax": "<'i,constSKIP:%s,T,constMAX:%s>=predefined_node::RepMinMax<T,Skipped<'i>,SKIP,0,MAX>" % (U, U),
    "RepMinMax": "<'i,constSKIP:%s,T,constMIN:%s,constMAX:%s>=predefined_node::RepMinMax<T,Skipped<'i>,SKIP,MIN,MAX>" % (U, U, U),
}


def generics_defs_ok(r):
    """-> list of (alias, emitted, expected) that differ from GENERICS_MODEL (unknown aliases: expected None)"""
    bad = []
    for x in (r.field("gendefs") or [])[1:]:
        name, txt = x[0], bytes.fromhex(x[1]).decode("utf8", "replace")
        want = GENERICS_MODEL.get(name)
        if want != txt:
            bad.append((name, txt, want))
    return bad


# ------------------------------------------------------------ V1
def v1(ctx, n_random, which=("opt",)):
    """the real generator's emitted types == Model/Translate.v on the same pest AST, for the fixed corpus and
    n_random seeded random grammars.  Returns number of grammars compared."""
    gendump.build()
    rng = Rng(ctx.seed).fork("v1")
    texts = list(grammar.HAND) + grammar.repo_grammars() + [nesting_grammar(True, True, 2)]
    texts += [grammar.rand_grammar(rng.fork("g%d" % i)) for i in range(n_random)]
    n = 0
    bad = 0
    for w in which:
        opts = {} if w == "opt" else {"pest_optimizer": False}
        gs = [("v%d" % i, t, opts) for i, t in enumerate(texts)]
        res = gendump.dump(gs)
        valid = [(gid, res[gid]) for gid, _, _ in gs if res[gid].meta_ok and res[gid].gen_ok]
        mt = grammar.model_translate([(gid, r, w) for gid, r in valid])
        for gid, r in valid:
            n += 1
            if r.anomalies():
                bad += 1
                ctx.violation("the generator emits something the extractor cannot classify (%s)" % (r.anomalies()[:2],),
                              {"grammar": texts[int(gid[1:])], "which": w}, found_input=False)
                continue
            undefined = sorted(r.used_generics() - set(r.generics()))
            if undefined:
                bad += 1
                if bad <= 4:
                    ctx.violation("the emitted rule types use %s, which the emitted generics module does not define (the derive expansion does not compile)" % undefined,
                                  {"grammar": texts[int(gid[1:])], "which": w, "options": opts, "undefined": undefined})
                continue
            gd = generics_defs_ok(r)
            if gd:
                bad += 1
                if bad <= 4:
                    ctx.violation("the emitted generics module defines %s differently from what the generator model assumes" % gd[0][0],
                                  {"grammar": texts[int(gid[1:])], "which": w, "alias": gd[0][0], "emitted": gd[0][1], "model": gd[0][2],
                                   "broken": "T1/V1 generics aliases = GENERICS_MODEL (vlib/gencore.py)"}, found_input=False)
                continue
            skip, rules = grammar.typed_from_dump(r)
            m = mt.get(gid)
            real = [(nm, a, e, t) for (nm, a, e, b, t) in rules]
            if m is None or skip != m[0] or real != m[1]:
                bad += 1
                if bad <= 4:
                    diff = [(x, y) for x, y in zip(real, m[1] if m else [])if x != y][:2]
                    ctx.violation("generator output differs from Model/Translate.v (%s AST): %s" % (w, repr(diff)[:300]),
                                  {"grammar": texts[int(gid[1:])], "which": w, "real": repr(real)[:2000],
                                   "model": repr(m)[:2000], "broken": "T1/V1 extract(generator(g)) = translate(g)"},
                                  found_input=False)
            ctx.count("v1_%s_rules=%d" % (w, min(len(rules), 8)))
    ctx.coverage["v1_grammars_compared"] = ctx.coverage.get("v1_grammars_compared", 0) + n
    ctx.coverage["v1_mismatches"] = ctx.coverage.get("v1_mismatches", 0) + bad
    return n


# ------------------------------------------------------------ typed vs spec vs pest on the derive corpus
def analyze(ctx, tier, observable, do_t3=True):
    """observable = 'offset' (C01: verdict + consumed offset) or 'tokens' (C02: pair tree).
    T2: impl == faithful model.  T3: impl vs PEG spec (Model/PegSpec.v, itself compared with real pest on every case).
    A T3 failure is a KNOWN finding of class WsNonAtomic iff the faithful model predicts the implementation's output
    exactly AND the model variant in which WHITESPACE/COMMENT are matched atomically gives the spec's answer."""
    from .common import load_known_findings
    dgs, run = corpus_run(tier)
    by = {g.name: g for g in dgs}
    report_anomalies(ctx)
    for p in run.problems:
        ctx.violation("runner problem (124 = a parse did not return: watchdog): " + p, {"problem": p}, found_input=False)
    pending = []          # (gname, sid, hx, impl_line, what, typed_obs, spec_obs)
    n = t2_bad = spec_bad = pest_panic = pest_undefined = 0
    reported = set()
    for a, b, x, aa, pe, gg in dcorp.records_pe(run):
        n += 1
        sid = a[:a.index("|")]
        gn = sid.split(".")[0]
        g = by[gn]
        ri = int(sid.split(".")[1][1:])
        rn = g.rules[ri]
        names = ["EOI"] + g.rules
        sid_, form, hx, ia, ib, f = rtcat.split_line(a)
        tv = f["P"][:f["P"].index("=")] if f["P"].startswith("ok@") else "fail"
        if a != b:
            # the model no longer describes the code: look for a failing input of the PROPERTY among the disagreeing
            # cases (implementation vs the PEG spec, which does not depend on the model of the runtime)
            t2_bad += 1
            gv0 = gg[:gg.index(":")] if gg.startswith("ok@") else gg
            direct = None
            cv = f["C"][:f["C"].index(";")] if f["C"].startswith("ok@") else ("fail" if f["C"].startswith("fail") else f["C"][:8])
            if observable == "offset" and tv != gv0 and (gv0 == "fail" or gv0.startswith("ok@")):
                direct = ("typed %s, PEG spec / pest %s" % (tv, gv0))
            elif observable == "offset" and cv != gv0 and (gv0 == "fail" or gv0.startswith("ok@")):
                direct = ("typed check path %s, PEG spec / pest %s" % (cv, gv0))
            elif observable == "tokens" and tv.startswith("ok@") and gv0.startswith("ok@"):
                atomic_idx0 = {i + 1 for i, nm in enumerate(g.rules) if g.kinds[nm] in ("atomic", "compound")}
                want = show_toks(prune(parse_toks(gg[gg.index(":") + 1:]), atomic_idx0))
                if f.get("TK") != want:
                    direct = "typed pair tree %s, pest's pruned tree %s" % (str(f.get("TK"))[:120], want[:120])
            if direct and ws_variant_env(g) is None:
                if ("direct", gn) not in reported and len(reported) < 8:
                    reported.add(("direct", gn))
                    ctx.violation("typed parser differs from pest's PEG semantics (%s) on rule %s: %s (and the model no longer matches the code)"
                                  % (observable, rn, direct),
                                  {"grammar": g.text, "rule": rn, "input_hex": hx, "impl": a, "model": b, "spec": gg, "pest": pe})
            elif gn not in reported and len(reported) < 8:
                reported.add(gn)
                ctx.violation("model/implementation correspondence broken on derived grammar %s rule %s" % (gn, rn),
                              {"grammar": g.text, "rule": rn, "input_hex": hx, "impl": a, "model": b,
                               "broken": "correspondence Sem.v vs the derived typed parser"}, found_input=False)
            continue
        gv = gg[:gg.index(":")] if gg.startswith("ok@") else gg
        # ---- the spec against real pest (validates Model/PegSpec.v on every case where pest has an answer)
        pe2 = pest_to_idx(pe, names)
        if pe2 == "PANIC":
            pest_panic += 1
        else:
            pv = pe2[:pe2.index(":")] if pe2.startswith("ok@") else "fail"
            if g.kinds[rn] == "silent" and pv.startswith("ok@"):
                pv = "ok@?"                      # pest does not reveal the offset of a silent entry rule
            agree = (pv == gv) or (pv == "ok@?" and gv.startswith("ok@"))
            if agree and gv.startswith("ok@"):
                agree = gg[gg.index(":"):] == pe2[pe2.index(":"):]
            if not agree:
                if uses_stack(g):
                    pest_undefined += 1         # pest's generated parser misses restores on such grammars
                else:
                    spec_bad += 1
                    if ("spec", gn) not in reported and len(reported) < 5:
                        reported.add(("spec", gn))
                        ctx.violation("Model/PegSpec.v disagrees with the real pest parser on grammar %s rule %s: pest %s, spec %s"
                                      % (gn, rn, pe2[:80], gg[:80]),
                                      {"grammar": g.text, "rule": rn, "input_hex": hx, "pest": pe, "spec": gg,
                                       "broken": "validation of the specification PegSpec.v against pest"}, found_input=False)
        # ---- the typed parser against the spec
        if observable == "offset":
            t_obs, s_obs = tv, gv
        else:
            if not (tv.startswith("ok@") and gv.startswith("ok@")):
                t_obs = s_obs = None             # acceptance is C01's business
            else:
                atomic_idx = {i + 1 for i, nm in enumerate(g.rules) if g.kinds[nm] in ("atomic", "compound")}
                t_obs = f["TK"]
                s_obs = show_toks(prune(parse_toks(gg[gg.index(":") + 1:]), atomic_idx))
        if do_t3 and t_obs != s_obs:
            pending.append((gn, sid, hx, a, rn, t_obs, s_obs))
        elif gv.startswith("ok@") and not gv.startswith("ok@0"):
            ctx.nontrivial.add((sid, hx))
        ctx.count("verdict=%s" % ("ok" if tv != "fail" else "fail"))
        ctx.count("kind=%s" % g.kinds[rn])
        if n % 4999 == 0 and len(ctx.samples) < 6:
            ctx.samples.append({"grammar": g.text[:200], "rule": rn, "input_hex": hx, "typed": f["P"][:80], "spec": gg[:80], "pest": pe[:80]})
    # ---- classify the T3 failures
    known = [k for k in load_known_findings() if k.get("status") == "known" and k.get("class") == "WsNonAtomic"
             and k.get("property") == ctx.pid]
    need = sorted({p[0] for p in pending})
    variant = {}
    if need:
        pairs = []
        for gn in need:
            env = ws_variant_env(by[gn])
            if env is not None:
                pairs.append((env, dcorp.inputs_for(by[gn])))
        if pairs:
            variant = model_only(pairs)
    n_known = 0
    ex_known = None
    for (gn, sid, hx, a, rn, t_obs, s_obs) in pending:
        vf = variant.get((sid, hx))
        is_known = False
        if vf is not None and known:
            if observable == "offset":
                v_obs = vf["P"][:vf["P"].index("=")] if vf["P"].startswith("ok@") else "fail"
            else:
                v_obs = vf.get("TK")
            is_known = v_obs == s_obs
        if is_known:
            n_known += 1
            ex_known = ex_known or (by[gn].text, rn, hx, t_obs, s_obs)
        else:
            if ("t3", gn) not in reported and len(reported) < 8:
                reported.add(("t3", gn))
                ctx.violation("typed parser differs from pest's PEG semantics (%s) on rule %s: typed %s, spec %s"
                              % (observable, rn, str(t_obs)[:100], str(s_obs)[:100]),
                              {"grammar": by[gn].text, "rule": rn, "input_hex": hx, "impl": a, "typed": t_obs, "spec": s_obs})
    if n_known:
        g_text, rn, hx, t_obs, s_obs = ex_known
        ctx.known.append("WHITESPACE/COMMENT are not forced atomic when referenced explicitly or used as entry rule "
                         "[class WsNonAtomic: %d explored cases, the faithful model predicts each output exactly and the variant with "
                         "atomic skip rules gives pest's answer; e.g. rule %s on input %s: typed %s, pest %s]"
                         % (n_known, rn, hx, str(t_obs)[:60], str(s_obs)[:60]))
    ctx.evaluations += n
    ctx.coverage.update({"grammars_compiled": len(dgs), "rules": sum(len(g.rules) for g in dgs), "t2_mismatches": t2_bad,
                         "spec_vs_pest_disagreements": spec_bad, "pest_panics": pest_panic,
                         "pest_undefined_stack_cases": pest_undefined, "t3_failures_total": len(pending),
                         "t3_known_class_WsNonAtomic": n_known, "traces_validated_against_impl": n - t2_bad,
                         "run_cached": run.cached})
    return n
