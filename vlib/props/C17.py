"""C17: choice, sequence, repetition and leaf accessors reflect what was actually matched."""
from ..common import Rng, log
from ..coqbuild import check_property_proofs
from .. import tb, core, arity

MAX_REPORT = 6


def describe(sd, sh, inp, flags):
    form, s, a, b = inp
    return {"shard": sd.name, "shape_id": sh.sid, "kind": sh.kind, "family": sh.family, "arity": sh.n,
            "env": sd.env.env_sexp(flags), "shape": arity.shape_sexp(sd, sh),
            "rust_type": arity.RustGen(sd.env).ty(sh.expr)[:2000],
            "form": form, "input_hex": s.hex() if s else "-", "input": s.decode("utf8"), "a": a, "b": b,
            "how_to_replay": "python3 -c \"import sys; sys.path.insert(0,'/verif'); from vlib import arity; "
                             "arity.replay('replays/<this file>')\""}


def first_diff(x, y):
    fx, fy = x.split("|"), y.split("|")
    for p, q in zip(fx, fy):
        if p != q:
            return "%s  vs  %s" % (p[:200], q[:200])
    return "%d fields vs %d fields" % (len(fx), len(fy))


def check(ctx):
    ok = check_property_proofs(ctx, "C17")
    if not ok:
        ctx.violation("proof obligation for C17 no longer checks",
                      {"broken": [n for n, o, _ in ctx.obligations if not o]}, found_input=False)
    flags = core.MODEL_FLAGS
    shards, records, problems, model_exe = arity.run_arity(ctx.tier, flags, ctx.seed)
    for p in problems:
        ctx.violation("harness problem: " + p, {"problem": p}, found_input=False)
    t2_bad = t3_bad = 0
    reported = set()
    seen_variants, seen_seq = set(), set()
    rng = Rng(ctx.seed)
    for sd, sh, inp, impl, model in records:
        form, s, a, b = inp
        ctx.evaluations += 1
        got = arity.body_of(impl)
        want, nontriv = arity.oracle_line(sh, form, s, a, b)
        t3 = got != want
        t2 = impl != model
        fam = "%s%s" % (sh.family, ("/%d" % sh.n) if sh.n else "")
        if t3:
            t3_bad += 1
            if sh.sid not in reported and len(reported) < MAX_REPORT:
                reported.add(sh.sid)
                rep = dict(describe(sd, sh, inp, flags), impl=impl, model=model, oracle=want)
                ctx.violation("accessors of a parsed %s (%s) do not reflect what was matched on input %r: %s%s" % (
                    sh.kind, fam, s.decode("utf8"), first_diff(got, want),
                    " (and the model no longer matches the code)" if t2 else ""), rep)
        elif t2:
            t2_bad += 1
            if sh.sid not in reported and len(reported) < MAX_REPORT:
                reported.add(sh.sid)
                rep = dict(describe(sd, sh, inp, flags), impl=impl, model=model, oracle=want,
                           broken="correspondence Access.v / Sem.v vs the runtime crate on shape %s" % sh.sid)
                ctx.violation("model/implementation correspondence broken on %s: %s" % (sh.sid, first_diff(impl, model)),
                              rep, found_input=False)
        else:
            if nontriv:
                ctx.nontrivial.add((sh.sid, form, s, a, b))
        ctx.count("kind=%s" % sh.kind)
        ctx.count("family=%s" % fam)
        ctx.count("form=%s" % form)
        ctx.count("verdict=%s" % ("ok" if got.startswith("P:ok") else got[:10]))
        if sh.kind == "choice" and got.startswith("P:ok"):
            i = got[got.index("{ _") + 3:]
            ctx.count("choice_variant=%s" % i[:i.index(":")])
            if not t3 and not t2:
                seen_variants.add((sd.name, sh.n, int(i[:i.index(":")])))
        if sh.kind == "seq" and got.startswith("P:ok") and not t3 and not t2:
            seen_seq.add((sd.name, sh.n))
        if len(ctx.samples) < 10 and nontriv and not t3 and not t2 and rng.below(max(1, len(records) // 25)) == 0:
            ctx.samples.append({"case": impl[:400], "oracle": want[:200]})
    arity.vm_crosscheck(ctx, records, model_exe, flags, Rng(ctx.seed).fork("vm"), k=12 if ctx.tier == "quick" else 40)
    if any(not o for n, o, _ in ctx.obligations if n.startswith("extraction cross-check")):
        ctx.violation("extraction cross-check (vm_compute vs extracted driver) failed", {"broken": "extraction"}, found_input=False)
    # coverage of the quantifier: every alternative index of every arity (library and macro instances) was the winner of
    # some validated case, and every SeqN was parsed successfully
    want_v = {(sd.name, sh.n, i) for sd in shards for sh in sd.shapes if sh.kind == "choice" and sh.family == "cp" for i in range(sh.n)}
    want_s = {(sd.name, sh.n) for sd in shards for sh in sd.shapes if sh.kind == "seq"}
    missing = sorted(want_v - seen_variants) + sorted(want_s - seen_seq)
    if not (t2_bad or t3_bad):
        ctx.oblige("coverage: every variant _i of every ChoiceN and every SeqN observed in a validated case", not missing, str(missing[:20]))
        if missing:
            ctx.violation("harness coverage lost: no validated case for %s" % (missing[:8],), {"missing": [list(m) for m in missing]}, found_input=False)
    ctx.coverage["t2_mismatches"] = t2_bad
    ctx.coverage["t3_failures"] = t3_bad
    ctx.coverage["traces_validated_against_impl"] = ctx.evaluations - t2_bad - t3_bad
    ctx.coverage["arities"] = sorted({sh.n for sd in shards for sh in sd.shapes if sh.n})
    ctx.coverage["shapes"] = sum(len(sd.shapes) for sd in shards)
    ctx.coverage["match_choices"] = "pest_typed_derive::match_choices! is used directly (outside a derive) with a local `generics` module"
    ctx.rule = ("for every arity n in %s: ChoiceN with overlapping alternatives (cp: \"a\"^(n-j); cr: nested char ranges; cx: Str/Insens "
                "literals told apart at later positions; rnd: seeded random Str/Insens/CharRange/Seq2 alternatives x all strings over {a,b,A}) and SeqN (same-typed, with implicit skipping, heterogeneous); arity 12 both as "
                "library type and as macro instance, 13..16 by pest_typed::choices!/seq!; repetitions; every leaf kind x an alphabet with "
                "1-4 byte chars, all case spellings, CR/LF/CRLF, stack nodes, as &str and as sub-span inputs. Each case: impl line == model "
                "line (T2) and impl line == independent string-level oracle (T3). non-trivial = choice where >= 2 alternatives match on "
                "their own / sequence with >= 2 items (skip-on: some skipped text non-empty) / repetition with >= 2 iterations / leaf that "
                "consumed a multi-byte char, a spelling different from the pattern, a stack span, or ran on a sub-span; distinct = (shape, input)"
                % ("{2,3,5,12,13,16}" if ctx.tier == "quick" else "2..16"))
    ctx.assumptions.append("real-path theorems (C17_*_impl) assume the repaired environment `fixed E` of C05; skip_until on sub-inputs (F3) is outside C17's runs")
    # first match also when the alternatives touch the parse stack: a failed earlier alternative must not change what a
    # later one sees (stack family of the core catalogue; oracle = the full-backtracking reference, whose tree names the
    # alternative taken)
    from .. import rtcat
    envs, run = core.core_run(ctx.tier)

    def t3_stack(sid, f, x, a):
        got = rtcat.p_core(f["P"])
        if got != a:
            return "the alternative / tree reported differs from the first alternative that matches: parse gives %s but the reference gives %s" % (got[:200], (a or "")[:200])
        return None
    core.scan(ctx, envs, run, ("stack",), t3_stack, lambda sid, f, a: "Choice" in f["P"], "choice accessor off its spec (first matching alternative)")

    # leaf contents on every input form (also Span / Position sub-inputs that end inside a CRLF or a multi-byte character): the
    # stored character / spelling / NEWLINE kind / span text is what was consumed INSIDE the given range (reference tree)
    def t3_leaf(sid, f, x, a):
        got = rtcat.p_core(f["P"])
        if got != a:
            return "leaf content differs from what was consumed: parse gives %s but the reference gives %s" % (got[:200], (a or "")[:200])
        return None
    core.scan(ctx, envs, run, ("misc", "uni"), t3_leaf, lambda sid, f, a: f["P"].startswith("ok@") and f["_form"] != "str", "leaf accessor off its spec")
    return ctx.finish(level="proof", trusted_base=tb.BASE + [
        "vlib/arity.py oracle: an independent string-level matcher for the literal/range/stack shapes of the harness",
        "pest::unicode tables are sampled from the real crate for the model (T2); the oracle (T3) uses Python's unicodedata"])
