"""C07: atomicity is inherited and implicit skipping applied exactly as in pest."""
from ..coqbuild import check_property_proofs
from .. import tb, gencore


def check(ctx):
    ok = check_property_proofs(ctx, "C07")
    if not ok:
        ctx.violation("proof obligation for C07 no longer checks", {"broken": [n for n, o, _ in ctx.obligations if not o]}, found_input=False)
    # the #skip token at every position of every emitted type: V1 compares the complete emitted type expressions
    gencore.v1(ctx, 300 if ctx.tier == "quick" else 3000, which=("opt", "raw"))
    # consumed offsets, then the spans of every rule token, against the PEG spec / pest
    gencore.analyze(ctx, ctx.tier, "offset")
    cov_off = dict(ctx.coverage)
    gencore.analyze(ctx, ctx.tier, "tokens")
    ctx.coverage["offset_pass"] = {k: cov_off[k] for k in ("t3_failures_total", "t3_known_class_WsNonAtomic") if k in cov_off}
    # the runtime's own repetitions and sequences with the SKIP flag on and off (bounds family of the catalogue: RepeatMin /
    # RepeatMinMax for all MIN, MAX; these are what counted repetitions become with pest_optimizer = false): where the skip is
    # made and given back = the full-backtracking reference, on the parse AND the check path
    from .. import core, rtcat
    envs, run = core.core_run(ctx.tier)

    def t3_skip(sid, f, x, a):
        got = rtcat.p_core(f["P"])
        if got != a:
            return "skip positions: parse gives %s but the reference gives %s" % (got[:160], (a or "")[:160])
        return rtcat.c_vs_ref(f["C"], a)
    core.scan(ctx, envs, run, ("bounds",), t3_skip, lambda sid, f, a: " " in bytes.fromhex(f["_hex"] if f["_hex"] != "-" else "").decode("utf8", "replace"),
              "implicit skipping off its spec (runtime repetition / sequence)")
    # the never-failing entry points of the MIN = 0 repetitions (NeverFailedTypedNode::parse_with / check_with: separate loops the
    # generator uses only for the implicit-skip node itself) with SKIP in 0..3: skips between the units only, never before the first
    # (seeded C07-A6: check_with started its unit index at 1, so the skip ran at the start); theorem C07_never_failing_entry_points
    from .. import skipn
    skipn.check_never_failed(ctx, 5 if ctx.tier == "quick" else 7)
    from .C20 import raw_path
    raw_path(ctx, ctx.tier)          # atomicity / skipping under the un-optimized generator path (pest_optimizer = false)
    ctx.known = [k for k in ctx.known if "optimizer_rewrote_rule" not in k]
    # one KNOWN-FINDING line per class
    ctx.known = ctx.known[:1]
    ctx.rule = ("kind-nesting family: k1{ k2{ body } } (thorough: k1{ k2{ k3{ body } } }) for all tuples of the five rule kinds x bodies "
                "{\"a\" ~ \"b\", \"a\"*, \"a\" ~ \"b\"*} x the combinations of WHITESPACE/COMMENT being defined, plus the rest of the derive "
                "corpus; every rule as entry x all strings over {a, b, x, y, blank, #} up to the bound; compared: consumed offsets and the "
                "spans of every rule token vs the faithful model (T2) and vs the PEG spec = pest (T3); V1 checks the skip token at every "
                "position of every emitted type. non-trivial = accepted with offset > 0; distinct = (rule, input)")
    return ctx.finish(level="proof", trusted_base=tb.BASE + ["pest_meta 2.7.14 parser/optimizer provide the AST"])
