"""C12: Position::line_col / line_of agree with pest::Position on every string and boundary offset.

proof  : Properties/C12.v  (model Lines.v = spec LinesSpec.v for all valid UTF-8 strings and all boundaries)
T2     : extracted Lines.v model  vs  pest_typed::Position (harness/unitpos)      -- model still matches the code
T3     : pest_typed::Position     vs  pest::Position 2.7.14 (same harness)         -- the property's oracle
cases  : every string of <= N characters over {LF, CR, a, e-acute(2), zhong(3), emoji(4)} x every offset
         0..=len+1 (exhaustive; N = 5 quick / 7 thorough), plus long seeded random texts x sampled offsets."""
from ..common import Rng, log
from ..coqbuild import check_property_proofs
from .. import tb, lineslib as ll

ALPHA = [ll.LF, ll.CR, ll.A, ll.E2, ll.ZH, ll.EMO]


def random_text(rng):
    n = 20 + rng.below(280)
    style = rng.below(5)
    out = []
    for _ in range(n):
        r = rng.below(100)
        if style == 0:      # mostly CRLF text
            out.append("\r\n" if r < 12 else ll.CR if r < 15 else ll.LF if r < 18 else rng.choice([ll.A, "b", " ", ll.E2, ll.ZH, ll.EMO]))
        elif style == 1:    # LF text
            out.append(ll.LF if r < 15 else rng.choice([ll.A, "z", "\t", ll.E2, ll.ZH, ll.EMO, ll.CR]))
        elif style == 2:    # dense line breaks
            out.append(rng.choice([ll.LF, ll.CR, "\r\n", ll.A, ll.ZH]))
        elif style == 4:    # byte-class edges
            out.append(ll.LF if r < 8 else "\r\n" if r < 12 else ll.CR if r < 14 else rng.choice(ll.EDGE + [ll.A, " "]))
        else:               # few breaks, wide characters
            out.append(ll.LF if r < 3 else ll.CR if r < 5 else rng.choice([ll.E2, ll.ZH, ll.EMO, " ", "\x0b", "\x0c", "\x85", ll.A]))
    return "".join(out)


def item_key(item):
    return item.split(":", 1)[0]


def first_diff(a, b):
    ia, ib = a.split(";"), b.split(";")
    for x, y in zip(ia, ib):
        if x != y:
            return x, y
    return (ia[len(ib)] if len(ia) > len(ib) else "<missing>", ib[len(ia)] if len(ib) > len(ia) else "<missing>")


def check(ctx):
    proofs_ok = check_property_proofs(ctx, "C12")
    if not proofs_ok:
        # the explored cases below look for a concrete failing input; if none shows up this stays input-less
        pass
    exe, drv = ll.build_all(ctx)
    if exe is None or drv is None:
        ctx.violation("C12 machinery does not build", {"obligations": [n for n, o, _ in ctx.obligations if not o]}, found_input=False)
        return ctx.finish(level="proof", trusted_base=tb.BASE)

    maxlen = 5 if ctx.tier == "quick" else 7
    nrand = 2000 if ctx.tier == "quick" else 20000
    ctx.nontrivial = ll.CountSet()
    ctx.rule = ("distinct (string, offset) pairs where the string contains LF or CR and the offset is a character "
                "boundary other than 0 (strings de-duplicated; counted, not stored)")

    cases, seen, strs = [], set(), []
    for s in ll.all_strings(ALPHA, maxlen):
        h = ll.hx(s)
        seen.add(h)
        strs.append(s)
        cases.append("P " + h)
    # byte-class edges: every string of <= 3 characters over {LF, CR, a} + EDGE (first / last continuation bytes etc.)
    for s in ll.all_strings([ll.LF, ll.CR, ll.A] + ll.EDGE, 2 if ctx.tier == "quick" else 3):
        h = ll.hx(s)
        if h not in seen:
            seen.add(h)
            strs.append(s)
            cases.append("P " + h)
    # the unit-test strings of position.rs and a few classics
    for s in ["a\rb\nc\r\nd嗨", "abcd嗨", "\n\n", "\r\n\r\n", "\r\r\n\n\r", "x\r\n", "\r\n" * 40, "a" * 300, "\n" * 300]:
        h = ll.hx(s)
        if h not in seen:
            seen.add(h)
            strs.append(s)
            cases.append("P " + h if len(s) < 30 else "P %s %s" % (h, ",".join(str(i) for i in sorted(set([0, 1, 2, len(s.encode()) // 2, len(s.encode()) - 1, len(s.encode()), len(s.encode()) + 1])))))
    rng = Rng(ctx.seed).fork("C12-texts")
    for _ in range(nrand):
        s = random_text(rng)
        h = ll.hx(s)
        if h in seen:
            continue
        seen.add(h)
        strs.append(s)
        b = s.encode("utf8")
        bounds = [i for i in range(len(b) + 1) if i == len(b) or (b[i] & 0xC0) != 0x80]
        offs = set([0, len(b), len(b) + 1, max(0, len(b) - 1)])
        for _k in range(10):
            offs.add(rng.choice(bounds))
        for _k in range(2):
            offs.add(rng.below(len(b) + 1))     # possibly inside a character
        # just after a CR / between CR and LF / just after LF: the state machine's corners
        hot = [i + 1 for i in range(len(b)) if b[i] in (10, 13)]
        for _k in range(4):
            if hot:
                offs.add(rng.choice(hot))
        cases.append("P %s %s" % (h, ",".join(str(i) for i in sorted(offs))))
    log("C12: %d strings (%d exhaustive up to %d chars)" % (len(cases), sum(len(ALPHA) ** k for k in range(maxlen + 1)), maxlen))

    rust = ll.run_sharded(exe, cases, "c12.%s.rust" % ctx.tier)
    model = ll.run_sharded(drv, cases, "c12.%s.model" % ctx.tier)

    t3_bad = t2_bad = 0
    model_items = []     # (hex, item) for the vm_compute cross-check
    for idx, (rl, ml) in enumerate(zip(rust, model)):
        h, sides = ll.split_sides(rl)
        hm, msides = ll.split_sides(ml)
        I, P, M = sides.get("I"), sides.get("P"), msides.get("M")
        if h != hm or I is None or P is None or M is None:
            raise RuntimeError("C12: malformed harness/model output at case %d: %r / %r" % (idx, rl[:200], ml[:200]))
        items = I.split(";")
        n = len(items)
        ctx.evaluations += n
        s = strs[idx]
        nchars = len(s)
        ctx.count("chars=%s" % (nchars if nchars <= 7 else "8..49" if nchars < 50 else "50+"))
        nb = sum(1 for it in items if ":S:" in it)
        ctx.count("offsets:boundary", nb)
        ctx.count("offsets:rejected(non-boundary/out-of-range)", n - nb)
        if "\n" in s or "\r" in s:
            ctx.count("strings with a line break")
            ctx.nontrivial.add_n(sum(1 for it in items if ":S:" in it and not it.startswith("0:")))
        if "\r\n" in s:
            ctx.count("strings with CRLF")
        if idx % 997 == 5 and len(ctx.samples) < 12:
            ctx.samples.append({"input_hex": h, "impl": I[:200], "pest": P[:200], "model": M[:200]})
        if idx % 211 == 3 or nchars > 7 and idx % 37 == 0:
            mi = M.split(";")
            model_items.append((h, mi[(idx // 7) % len(mi)]))
        if I != P:
            t3_bad += 1
            if t3_bad <= 3:
                x, y = first_diff(I, P)
                ctx.violation("Position::line_col/line_of differs from pest::Position at offset %s" % item_key(x),
                              {"input_hex": h, "input": s, "offset": item_key(x), "impl": x, "oracle_pest": y,
                               "model": next((m for m in M.split(";") if item_key(m) == item_key(x)), None),
                               "format": "offset:S:line,col:=hex(line_of) | offset:N (Position::new is None)",
                               "rerun": "echo 'P %s %s' | .cache/target/debug/unitpos" % (h, item_key(x))})
        if I != M:
            t2_bad += 1
            if t2_bad <= 3 and I == P:
                x, y = first_diff(I, M)
                ctx.violation("correspondence Lines.v vs position.rs broken at offset %s (impl agrees with pest on this case: the model no longer describes the code)" % item_key(x),
                              {"input_hex": h, "input": s, "offset": item_key(x), "impl": x, "model": y, "oracle_pest": x},
                              found_input=False)
    ctx.oblige("T3 pest_typed::Position == pest::Position on all %d (string, offset) cases" % ctx.evaluations, t3_bad == 0, "%d strings differ" % t3_bad)
    ctx.oblige("T2 extracted Lines.v model == pest_typed::Position on all cases", t2_bad == 0, "%d strings differ" % t2_bad)

    # cross-check of the extraction: the same model run by vm_compute inside coqc on a seeded sample
    ex = []
    r2 = Rng(ctx.seed).fork("C12-vm")
    picks = [model_items[r2.below(len(model_items))] for _ in range(50)] if model_items else []
    for h, it in picks:
        f = it.split(":")
        p = f[0]
        bs = ll.coq_bytes(h)
        if f[1] == "N":
            ex.append((it, "pos_new %s %s = None" % (bs, p)))
            continue
        lc = "LOk (%s, %s)" % tuple(f[2].split(",")) if "," in f[2] else {"PANIC": "LPanic", "UNREACHABLE": "LUnreachable", "FUEL": "LFuel", "DEAD": "LDead"}[f[2]]
        lo = "LOk %s" % ll.coq_bytes(f[3][1:] or "-") if f[3].startswith("=") else {"PANIC": "LPanic", "FUEL": "LFuel"}[f[3]]
        ex.append((it, "(pos_new %s %s, line_col %s %s, line_of %s %s) = (Some %s, %s, %s)" % (bs, p, bs, p, bs, p, p, lc, lo)))
    hdr = "From Coq Require Import List NArith.\nFrom PT Require Import Model.Base Model.Lines.\nImport ListNotations.\n"
    ok, msg = ll.vm_check(ctx, "C12_%s" % ctx.tier, hdr, ex)
    ctx.oblige("extraction cross-check: %d sampled cases, vm_compute in coqc == extracted OCaml" % len(ex), ok and len(ex) > 0, msg)

    if not proofs_ok and not ctx.violations:
        ctx.violation("proof obligation for C12 no longer checks", {"broken": [n for n, o, _ in ctx.obligations if not o]}, found_input=False)
    elif any(not o for _, o, _ in ctx.obligations) and not ctx.violations:
        ctx.violation("C12 obligation failed", {"broken": [n for n, o, _ in ctx.obligations if not o]}, found_input=False)
    return ctx.finish(level="proof", trusted_base=tb.BASE + [
        "Model/Lines.v is a hand transcription of position.rs:142-244 (tied by the T2 differential run only)",
        "`char_indices().rev()` is modelled as the reversed list of `char_indices()` (true on valid UTF-8, which `&str` guarantees)",
    ])
