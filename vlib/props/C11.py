"""C11: ill-formed grammars are rejected at generation time; sound ones terminate."""
import os
import re

from ..coqbuild import check_property_proofs
from ..common import REPO, Rng
from .. import tb, gencore, gendump, grammar, build
from ..core import MODEL_FLAGS
import subprocess

ILL = [
    'a = { a }',
    'a = { a ~ "x" }',
    'a = { b ~ "x" }\nb = { a }',
    'a = { "x"? ~ a }',
    'a = { &"x" ~ a }',
    'a = { !"x" ~ a }',
    'a = { b ~ a }\nb = _{ "x"? }',
    'a = { PUSH("x"?) ~ a }',
    'a = { (b | "y") ~ "z" }\nb = { a ~ "x" }',
    'a = { ("x"?)* }',
    'a = { (!"x")* }',
    'a = { (&"x")+ }',
    'a = { ("x"*)* }',
    'a = { ("" | "x")* }',
    'a = { (b)* }\nb = { "x"? }',
    'a = { ("x"? | "y") ~ "z" | "w" }',
    'a = { "x"? | "y" }',
    'a = { ("x"*) | "y" }',
    'a = { !"x" | "y" }',
    'WHITESPACE = { "" }\na = { "x" ~ "y" }',
    'WHITESPACE = { " "? }\na = { "x" ~ "y" }',
    'WHITESPACE = _{ " "* }\na = { "x" ~ "y" }',
    'COMMENT = { "#"? }\na = { "x" }',
    'COMMENT = _{ !"x" }\na = { "x" }',
    'a = { "x"{0} }',
    'a = { ',
    'a = { "x" ',
    'a = "x"',
    '= { "x" }',
    'a = { b }',
    'a = { "x" }\na = { "y" }',
    'ANY = { "x" }',
]


def mutate(rng, text):
    """one small mutation of a valid grammar (most results are still well-formed syntax, many are ill-formed grammars)"""
    k = rng.below(10)
    lits = list(re.finditer(r'"[^"]*"', text))
    names = re.findall(r"^(\w+) =", text, re.M)
    if k == 0 and lits:
        m = rng.choice(lits)
        return text[:m.start()] + '""' + text[m.end():]
    if k == 1 and "+" in text:
        i = rng.choice([m.start() for m in re.finditer(r"\+", text)])
        return text[:i] + "*" + text[i + 1:]
    if k == 2 and lits:
        m = rng.choice(lits)
        return text[:m.end()] + "?" + text[m.end():]
    if k == 3 and lits and names:
        m = rng.choice(lits)
        return text[:m.start()] + rng.choice(names) + text[m.end():]
    if k == 4 and lits:
        m = rng.choice(lits)
        return text[:m.start()] + "(" + m.group(0) + "?)*" + text[m.end():]
    if k == 5 and lits:
        m = rng.choice(lits)
        return text[:m.start()] + rng.choice(["!", "&"]) + m.group(0) + text[m.end():]
    if k == 6 and lits:
        m = rng.choice(lits)
        return text[:m.start()] + "(" + m.group(0) + "? | \"q\")" + text[m.end():]
    if k == 7:
        toks = list(re.finditer(r"[~|{}()*+?]", text))
        if toks:
            m = rng.choice(toks)
            return text[:m.start()] + text[m.end():]
    if k == 8 and names:
        n = rng.choice(names)
        return text + '\n%s2 = { %s2 ~ "x" }' % (n, n)
    if k == 9:
        return 'WHITESPACE = _{ " "? }\n' + text if "WHITESPACE" not in text else text.replace('" "', '" "?', 1)
    return text + "\n"


def pipeline_order(ctx):
    """structural fact about generator/src/typed.rs: pest's validation dominates code generation"""
    src = open(os.path.join(REPO, "generator", "src", "typed.rs")).read()
    m = re.search(r"pub fn derive_typed_parser\b.*?\n}\n", src, re.S)
    ok = False
    detail = "derive_typed_parser not found"
    if m:
        body = m.group(0)
        i_parse = body.find("parse(Rule::grammar_rules")
        i_val = body.find("unwrap_or_report(consume_rules(")
        gens = [x.start() for x in re.finditer(r"\bgenerate_typed\(", body)]
        ok = 0 <= i_parse < i_val and gens and all(i_val < g for g in gens) and "return" not in body[:i_val]
        detail = "parse@%d consume_rules@%d generate_typed@%s" % (i_parse, i_val, gens)
    ctx.oblige("T1 pipeline order: parse -> unwrap_or_report(consume_rules) dominates every generate_typed call in typed.rs", ok, detail)
    return ok


def termination_tie(ctx, dgs, run):
    """the theorem's class on the corpus: infer a certificate in the model, check it with the verified checker
    wf_cert, and re-run the model on the corpus inputs with exactly the fuel the theorem promises to be enough:
    no FUEL may come back (C11_entry_points evaluated), and the implementation returned on each of them (watchdog)"""
    okm, exe = build.build_extraction("Sem")
    if not okm:
        ctx.violation("model driver does not build", {"log": exe[-1500:]}, found_input=False)
        return
    from .. import dcorp
    nwf = nnot = ncases = 0
    for g in dgs:
        ins = dcorp.inputs_for(g)
        maxlen = max([len(b) for b in ins] + [0])
        p = subprocess.run([exe], input=g.env.env_sexp(MODEL_FLAGS) + "\n(wf %d)\n" % maxlen, capture_output=True, text=True)
        line = [l for l in p.stdout.split("\n") if l.startswith("WF|")]
        if p.returncode != 0 or not line:
            ctx.violation("wf checker crashed on a corpus grammar", {"grammar": g.text, "stderr": p.stderr[-500:]}, found_input=False)
            continue
        _, verdict, bound = line[0].split("|")
        if verdict != "1":
            nnot += 1
            ctx.count("wf_cert=reject")
            continue
        nwf += 1
        ctx.count("wf_cert=accept")
        ctx.nontrivial.add("wf:" + g.text)
        # model at the theorem's fuel: sample of the inputs (the whole set already ran with the heuristic fuel)
        sample = ins[:: max(1, len(ins) // 40)]
        job = [g.env.env_sexp(MODEL_FLAGS), "(clear)"] + g.env.shape_sexps() + ["(fuel %s)" % bound]
        job += ["(in str %s 0 0)" % (b.hex() if b else "-") for b in sample]
        p = subprocess.run([exe], input="\n".join(job) + "\n", capture_output=True, text=True)
        for ln in p.stdout.split("\n"):
            if not ln:
                continue
            ncases += 1
            if "FUEL" in ln:
                ctx.violation("model returns FUEL at the theorem's fuel bound (C11_entry_points does not describe the extracted model)",
                              {"grammar": g.text, "line": ln[:300], "bound": bound}, found_input=False)
                break
    ctx.evaluations += ncases
    ctx.coverage["wf_cert_accepted_grammars"] = nwf
    ctx.coverage["wf_cert_rejected_grammars"] = nnot
    ctx.coverage["model_runs_at_theorem_fuel"] = ncases
    ctx.oblige("termination tie: %d corpus grammars accepted by the verified checker wf_cert with the inferred certificate; "
               "%d model runs at exactly fuel_bound returned (no FUEL)" % (nwf, ncases), nwf > 0 and ncases > 0)


def check(ctx):
    ok = check_property_proofs(ctx, "C11")
    if not ok:
        ctx.violation("proof obligation for C11 no longer checks", {"broken": [n for n, o, _ in ctx.obligations if not o]}, found_input=False)
    if not pipeline_order(ctx):
        ctx.violation("validation no longer dominates code generation in generator/src/typed.rs (structural check)",
                      {"broken": "T1 pipeline order"}, found_input=False)
    # ---- verdict parity: the real generator under catch_unwind vs pest_meta's own pipeline
    gendump.build()
    rng = Rng(ctx.seed).fork("c11")
    valid_src = list(grammar.HAND) + grammar.repo_grammars()[:1]
    nmut = 500 if ctx.tier == "quick" else 5000
    texts = list(ILL) + list(grammar.HAND)
    for i in range(nmut):
        texts.append(mutate(rng.fork("m%d" % i), rng.choice(valid_src)))
    nrand = 300 if ctx.tier == "quick" else 3000
    texts += [grammar.rand_grammar(rng.fork("r%d" % i)) for i in range(nrand)]
    # several grammar sources (`#[grammar_inline]` more than once; U+001E separates the parts in a gen_dump request):
    # ill-formedness that only shows in the concatenation, and valid grammars cut in two at a rule boundary
    SEP = "\x1e"
    texts += ['expr = { sum | atom }\natom = { ASCII_DIGIT+ }\n' + SEP + 'sum = { expr ~ "+" ~ atom }\n',
              'list = { item* ~ ";" }\n' + SEP + 'item = { "x"? }\n',
              'a = { b ~ "x" }\n' + SEP + 'b = { a? ~ "y" }\n',
              'a = { "x" ~ "y" }\n' + SEP + 'WHITESPACE = _{ " "* }\n',
              'a = { (b | "y") ~ "z" }\n' + SEP + 'b = { "q"? | "r" }\n',
              'a = { b+ }\n' + SEP + 'b = { "x" }\n' + SEP + 'c = { a ~ b }\n']
    # grammars handed over as FILES (`#[grammar = "PATH"]`; U+001F + "src:" / "root:" in a gen_dump request): PATH relative to
    # CARGO_MANIFEST_DIR/src (the old default location, found by a fallback) and relative to CARGO_MANIFEST_DIR; also mixed with inline parts
    FILE = "\x1f"
    texts += [FILE + "src:" + grammar.HAND[0], FILE + "root:" + grammar.HAND[0], FILE + "src:" + ILL[0], FILE + "root:" + ILL[1],
              FILE + 'src:a = { b+ }\n' + SEP + 'b = { "x" }\n', 'a = { b ~ "x" }\n' + SEP + FILE + 'root:b = { a? ~ "y" }\n',
              FILE + 'src:main = { SOI ~ item ~ ("," ~ item)* ~ EOI }\nitem = @{ ASCII_ALPHA+ }\nWHITESPACE = _{ " " }\n']
    for i in range(nmut // 5):
        t = rng.choice(valid_src)
        lines = t.split("\n")
        if len(lines) >= 2:
            k = 1 + rng.fork("sp%d" % i).below(len(lines) - 1)
            t2 = "\n".join(lines[:k]) + "\n" + SEP + "\n".join(lines[k:])
            texts.append(mutate(rng.fork("sm%d" % i), t2) if i % 2 else t2)
    gs = [("c%d" % i, t, {}) for i, t in enumerate(texts)]
    res = gendump.dump(gs)
    bad = 0
    for gid, t, _ in gs:
        r = res[gid]
        ctx.evaluations += 1
        if r.toolerror:
            ctx.violation("gen_dump tool error on a grammar: %s" % r.toolerror[:200], {"grammar": t}, found_input=False)
            continue
        f = r.field("meta")
        stage = f[3] if f and f[1] == "err" and len(f) > 3 else ("ok" if r.meta_ok else "?")
        ctx.count("pest_verdict=%s" % stage)
        why = None
        if stage in ("consume", "parse") and r.gen_ok:
            why = "the generator accepts a grammar that pest rejects (%s: %s)" % (stage, (r.meta_msg or "")[:160])
        elif stage == "ok" and not r.gen_ok:
            why = "the generator rejects (panics on) a grammar that pest accepts: %s" % (r.gen_msg or "")[:160]
        if why:
            bad += 1
            if bad <= 5:
                ctx.violation(why, {"grammar": t, "pest": stage, "generator": "ok" if r.gen_ok else "panic"})
        elif stage in ("consume", "parse"):
            ctx.nontrivial.add(t)
        if len(ctx.samples) < 6 and stage == "consume":
            ctx.samples.append({"grammar": t[:200], "pest": (r.meta_msg or "")[:120], "generator": "panic" if not r.gen_ok else "ok"})
    ctx.coverage["verdict_parity_grammars"] = len(gs)
    ctx.coverage["verdict_parity_failures"] = bad
    # ---- every grammar of the derive corpus (all accepted by pest) compiles, and every parse batch returns
    try:
        dgs, run = gencore.corpus_run(ctx.tier)
        ctx.coverage["compiled_grammars"] = len(dgs)
        ctx.evaluations += len(dgs)
        for p in run.problems:
            ctx.violation("a parse batch did not return or died (watchdog / exit status): " + p, {"problem": p}, found_input=False)
        termination_tie(ctx, dgs, run)
        # the same for the un-optimized generator path (counted repetitions stay single RepMin / RepMinMax nodes there): the corpus
        # of C20 compiled with pest_optimizer = false; every batch returns
        from . import C20 as c20
        from .. import dcorp
        from ..core import MODEL_FLAGS
        rdgs = c20.raw_corpus(ctx.tier)
        rrun = dcorp.run_corpus("raw_%s" % ctx.tier, rdgs, dcorp.inputs_for, MODEL_FLAGS)
        ctx.coverage["compiled_grammars_optimizer_off"] = len(rdgs)
        ctx.evaluations += len(rdgs)
        for p in rrun.problems:
            ctx.violation("a parse batch of the corpus compiled with pest_optimizer = false did not return or died (watchdog / exit status): " + p,
                          {"problem": p, "options": {"pest_optimizer": False}}, found_input=False)
    except RuntimeError as e:
        msg = str(e)
        if "cargo build" not in msg:
            raise
        names = sorted(set(re.findall(r"src/(g\d+)\.rs", msg)))
        texts_by = {}
        try:
            texts_by = {g.name: g.text for g in gencore.compiled_corpus(ctx.tier)}
        except Exception:
            pass
        for nm in names[:5] or ["?"]:
            ctx.violation("code generated for a pest-valid grammar does not compile (%s)" % nm,
                          {"grammar": texts_by.get(nm, "?"), "rustc": msg[-3000:]}, found_input=bool(texts_by.get(nm)))
    # every name the emitted rule types use is defined by the emitted generics module, and its aliases are the modelled ones
    # (both AST paths; an undefined or ill-defined alias is a rustc error inside the derive expansion)
    gencore.v1(ctx, 150 if ctx.tier == "quick" else 1500, which=("opt", "raw"))
    # "for every grammar pest accepts it emits code that compiles", under box_only_if_needed: the emitted struct types are
    # finite iff every reference cycle passes through a Box (evaluated on the flags the real generator emits)
    try:
        from .. import boxing
        boxing.check_boxing(ctx, ctx.tier)
    except ImportError:
        pass
    ctx.rule = ("verdict parity: %d deliberately ill-formed grammars (direct / indirect left recursion through optionals, predicates, "
                "silent rules, PUSH; non-failing and non-progressing repetition bodies; unreachable alternatives; non-progressing skip "
                "rules; syntax errors) + seeded single-token mutations of valid grammars + seeded random grammars: "
                "pest_typed_generator::derive_typed_parser under catch_unwind vs pest_meta parse/validate/consume_rules; non-trivial = "
                "grammar rejected by pest's parser or AST validator; compile + watchdog part: the derive corpus" % len(ILL))
    ctx.assumptions.append("verdict parity and 'compiles' compare real programs: decided by validation runs, not by the theorem")
    return ctx.finish(level="proof", trusted_base=tb.BASE + ["pest_meta 2.7.14 validator as oracle"])
