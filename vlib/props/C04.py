"""C04: full parse succeeds only when the whole input is consumed."""
from ..coqbuild import check_property_proofs
from .. import tb, core, rtcat


def skip_ws_hash(s, p, end):
    """mi_rules: skip = (' ' | '#' (!'#' ANY)* '#')*   -- an unterminated comment is NOT skippable"""
    while p < end:
        if s[p:p + 1] == b' ':
            p += 1
        elif s[p:p + 1] == b'#':
            q = s.find(b'#', p + 1, end)
            if q < 0:
                break
            p = q + 1
        else:
            break
    return p


def skip_ws_nl(s, p, end):
    """un_rules: skip = (' ' | NEWLINE)*"""
    while p < end and s[p:p + 1] in (b' ', b'\n', b'\r'):
        p += 1
    return p


SKIPS = {"mi_rules": skip_ws_hash, "un_rules": skip_ws_nl}


def make_t3(envs):
    by_name = {e.name: e for e in envs}

    def t3(sid, f, x, a):
        if "FP" not in f:
            return None
        en, sn = sid.split(".")
        env = by_name[en]
        p, fp, fc = f["P"], f["FP"], f["FC"]
        form = f["_form"]
        hx = f["_hex"]
        s = bytes.fromhex(hx) if hx != "-" else b""
        end = f["_b"] if form == "span" else len(s)
        if not p.startswith("ok@"):
            if fp.startswith("ok"):
                return "full parse succeeds although the prefix parse fails"
            return None
        off = int(p[3:p.index("=")])
        tree = p[p.index("=") + 1:p.rfind(";S:")]
        shape = env.shapes[int(sn[1:])]
        rname = shape[1]
        atomic = rname == "EOI" or any(r[0] == rname and r[1] == 'true' for r in env.rules)
        skipf = SKIPS.get(en)
        if atomic:
            expect = off == end
        elif skipf is not None:
            expect = skipf(s, off, end) == end
        else:
            expect = None
        if expect is True:
            if not fp.startswith("ok="):
                return "prefix parse ends at %d and the rest is skippable up to the end, but try_parse rejects: %s" % (off, fp[:80])
            if fp[3:fp.rfind(";T:")] != tree:
                return "try_parse returns a different tree than the prefix parse"
            if not fc.startswith("ok"):
                return "try_check rejects where try_parse accepts"
        elif expect is False:
            if fp.startswith("ok"):
                return "try_parse reports success with unread input (prefix parse ends at %d of %d)" % (off, end)
            if fc.startswith("ok"):
                return "try_check reports success with unread input"
        if x is not None and x != "ok":
            return "entry points disagree: %s" % x[:200]
        return None
    return t3


def nontrivial(sid, f, a):
    # the prefix parse succeeded and did not already end at the end of the input (trailing text decides)
    if "FP" not in f or not f["P"].startswith("ok@"):
        return False
    hx = f["_hex"]
    n = len(hx) // 2 if hx != "-" else 0
    end = f["_b"] if f["_form"] == "span" else n
    return int(f["P"][3:f["P"].index("=")]) < end


def derive_corpus(ctx):
    """the same statement on parsers the REAL generator emits (derive corpus): the kind of the rule decides whether a trailing
    skip is made (generator: the `ignored` type handed to rule!), and the skip is pest's implicit skip -- computed here by the
    PEG spec (Model/PegSpec.v p_skip), independently of the typed Skipped type"""
    from .. import gencore, dcorp
    dgs, run = gencore.corpus_run(ctx.tier)
    by = {g.name: g for g in dgs}
    gencore.report_anomalies(ctx)
    n = bad = 0
    reported = set()
    for a, b, x, aa, pe, gg in dcorp.records_pe(run):
        sid, form, hx, ia, ib, f = rtcat.split_line(a)
        if "FP" not in f or gg is None or gg.sk is None:
            continue
        g = by[sid.split(".")[0]]
        rn = g.rules[int(sid.split(".")[1][1:])]
        if gencore.ws_variant_env(g) is not None:
            continue          # known class WsNonAtomic: the typed skip itself may differ from pest's there (C01/C07)
        p, fp, fc = f["P"], f["FP"], f["FC"]
        s = bytes.fromhex(hx) if hx != "-" else b""
        end = len(s)
        n += 1
        why = None
        if not p.startswith("ok@"):
            if fp.startswith("ok"):
                why = "full parse succeeds although the prefix parse fails"
        else:
            off = int(p[3:p.index("=")])
            atomic = g.kinds[rn] in ("atomic", "compound")
            if atomic:
                expect = off == end
            elif gg.sk.isdigit():
                expect = int(gg.sk) == end
            else:
                expect = None
            if expect is True and not fp.startswith("ok="):
                why = "prefix parse ends at %d and the rest is %s, but try_parse rejects: %s" % (off, "empty" if atomic else "skippable up to the end (pest's implicit skip reaches %s)" % gg.sk, fp[:80])
            elif expect is True and not fc.startswith("ok"):
                why = "try_check rejects although the prefix parse ends at %d and the rest is skippable" % off
            elif expect is False and fp.startswith("ok"):
                why = "try_parse reports success with unread input (prefix parse ends at %d, implicit skip reaches %s of %d)" % (off, gg.sk, end)
            elif expect is False and fc.startswith("ok"):
                why = "try_check reports success with unread input (prefix parse ends at %d of %d)" % (off, end)
            elif expect is not None and off < end:
                ctx.nontrivial.add((sid, hx))
        if why:
            bad += 1
            if (g.name, rn) not in reported and len(reported) < 5:
                reported.add((g.name, rn))
                ctx.violation("full parse off its spec (derived parser, rule %s of kind %s): %s" % (rn, g.kinds[rn], why),
                              {"grammar": g.text, "rule": rn, "input_hex": hx, "impl": a, "model": b, "spec_skip_reaches": gg.sk})
    ctx.evaluations += n
    ctx.coverage["derive_corpus_cases"] = n
    ctx.coverage["derive_corpus_failures"] = bad


def check(ctx):
    ok = check_property_proofs(ctx, "C04")
    if not ok:
        ctx.violation("proof obligation for C04 no longer checks", {"broken": [n for n, o, _ in ctx.obligations if not o]}, found_input=False)
    # what the generator emits for this property's constructs (trailing-skip type / stack built-ins and slices), both AST paths
    from .. import gencore
    gencore.v1(ctx, 150 if ctx.tier == "quick" else 1500, which=("opt", "raw"))
    envs, run = core.core_run(ctx.tier)
    core.scan(ctx, envs, run, ("misc", "uni"), make_t3(envs), nontrivial, "full parse off its spec")
    derive_corpus(ctx)
    ctx.rule = ("rule structs of all five kinds + EOI (misc and uni families) x all strings of the family incl. trailing skippable text "
                "and text that only looks skippable (unterminated '#' comment) x all three input forms; try_parse / try_check verdict "
                "and tree vs try_parse_partial + an independent trailing-skip computation; non-trivial = prefix parse succeeded "
                "before the end of the input; distinct = (rule, input, form)")
    ctx.coverage["exhaustive"] = True
    return ctx.finish(level="proof", trusted_base=tb.BASE)
