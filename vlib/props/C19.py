"""C19: counted repetition and the raw combinators obey their stated bounds."""
from ..coqbuild import check_property_proofs
from .. import tb, core, rtcat, skipn

_shape = {}


def counting_oracle(env, idx, s):
    """independent counting spec for rep(k, mn, mx, op) with op = "x" or ("xy" | "x"), skip = ' '*"""
    sh = env.shapes[idx][2]
    if sh[0] != 'rep':
        return None
    _, k, mn, mx, op = sh
    if op == ('str', b'x'):
        alts = [b'x']
    elif op == ('choice', [('str', b'xy'), ('str', b'x')]):
        alts = [b'xy', b'x']
    else:
        return None
    cur, n = 0, 0
    while mx is None or n < mx:
        p = cur
        if n > 0 and k == 'on':
            while s[p:p + 1] == b' ':
                p += 1
        m = None
        for a in alts:
            if s.startswith(a, p):
                m = p + len(a)
                break
        if m is None:
            break
        cur, n = m, n + 1
    return ("ok", cur, n) if n >= mn else ("fail", None, n)


def make_t3(envs):
    by_name = {e.name: e for e in envs}

    def t3(sid, f, x, a):
        got = rtcat.p_core(f["P"])
        if got != a:
            return "parse gives %s but the reference gives %s" % (got[:160], (a or "")[:160])
        cw = rtcat.c_vs_ref(f["C"], a)
        if cw:
            return cw
        en, sn = sid.split(".")
        env = by_name[en]
        if en.startswith("bd_str") or en.startswith("bd_cho"):
            hx = f["_hex"]
            s = bytes.fromhex(hx) if hx != "-" else b""
            base = 0
            if f["_form"] == "span":
                s, base = s[f["_a"]:f["_b"]], f["_a"]
            elif f["_form"] == "pos":
                s, base = s[f["_a"]:], f["_a"]
            o = counting_oracle(env, int(sn[1:]), s)
            if o is not None:
                if o[0] == "ok":
                    if not f["P"].startswith("ok@%d=" % (o[1] + base)):
                        return "counting spec: %d units, offset %d, but parse gives %s" % (o[2], o[1], f["P"][:60])
                elif not f["P"].startswith("fail"):
                    return "counting spec: only %d units (< MIN) but parse gives %s" % (o[2], f["P"][:60])
        # parse and check agree (C03 instantiated)
        p, c = f["P"], f["C"]
        if p.startswith("ok@"):
            if not c.startswith("ok@" + p[3:p.index("=")] + ";"):
                return "check %s vs parse %s" % (c[:40], p[:40])
        elif p[:4] != c[:4]:
            return "check %s vs parse %s" % (c[:40], p[:40])
        return None
    return t3


def nontrivial(sid, f, a):
    return f["P"].startswith("ok@") and not f["P"].startswith("ok@0=")


def check(ctx):
    ok = check_property_proofs(ctx, "C19")
    if not ok:
        ctx.violation("proof obligation for C19 no longer checks", {"broken": [n for n, o, _ in ctx.obligations if not o]}, found_input=False)
    envs, run = core.core_run(ctx.tier)
    core.scan(ctx, envs, run, ("bounds",), make_t3(envs), nontrivial, "bounded repetition / raw combinator off its spec")
    ctx.rule = ("bounds family: RepMin / RepMinMax for all MIN, MAX in 0..%d (incl. MIN > MAX) x skip on/off x element in "
                "{string, choice, nested repetition, stack op}; [T;N], pairs, optionals, SkipChar, AtomicRepeat; x all strings up to "
                "the family's length bound; oracles: reference interpreter for all, independent counting spec for string/choice "
                "elements; non-trivial = the run consumed input; distinct = (shape, input)" % (3 if ctx.tier == "quick" else 4))
    # skip counts >= 2 and skip nodes that are not idempotent: outside the Coq model (its skip argument is off / on / inherited),
    # decided against the counting specification of the property itself
    skipn.check_skip_counts(ctx, 6 if ctx.tier == "quick" else 8)
    skipn.check_never_failed(ctx, 6 if ctx.tier == "quick" else 8, "MIN = 0 repetition: greedy, at most MAX units, skips between units only")
    ctx.rule += ("; explicit skip counts: RepMin / RepMinMax / RepExact / Rep / RepOnce / Seq2 / Seq3 / repetition of sequences with SKIP in 0..3 "
                 "and the bounded skips \" \"? and \" \"{0,2}, x all strings over {a, b, blank} up to length %d, parse and check vs the counting "
                 "specification" % (6 if ctx.tier == "quick" else 8))
    ctx.coverage["exhaustive"] = True
    return ctx.finish(level="proof", trusted_base=tb.BASE)
