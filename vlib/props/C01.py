"""C01: the typed parser recognises exactly what pest recognises, consuming the same prefix."""
from ..coqbuild import check_property_proofs
from .. import tb, gencore


def check(ctx):
    ok = check_property_proofs(ctx, "C01")
    if not ok:
        ctx.violation("proof obligation for C01 no longer checks", {"broken": [n for n, o, _ in ctx.obligations if not o]}, found_input=False)
    gencore.v1(ctx, 300 if ctx.tier == "quick" else 3000, which=("opt", "raw"))
    gencore.analyze(ctx, ctx.tier, "offset")
    # the same statement for inputs that are sub-ranges (Span / Position): the runtime on every catalogue shape of the misc / uni /
    # stack families x every sub-input vs the full-backtracking reference (which knows the range's bounds), parse and check path
    from .. import core, rtcat
    envs, run = core.core_run(ctx.tier)

    def t3_ref(sid, f, x, a):
        got = rtcat.p_core(f["P"])
        if got != a:
            return "parse gives %s but PEG semantics (reference interpreter) gives %s" % (got[:160], (a or "")[:160])
        return rtcat.c_vs_ref(f["C"], a)
    core.scan(ctx, envs, run, ("misc", "uni", "stack"), t3_ref, lambda sid, f, a: f["_form"] != "str" and f["P"].startswith("ok@"),
              "typed parser differs from PEG semantics on a sub-input")
    ctx.rule = ("V1: real generator output == Model/Translate.v for the fixed corpus + seeded random grammars (no rustc). Derive corpus: "
                "hand-written, kind-nesting and random grammars (all rule kinds, every operator incl. counted repetition, insensitive, "
                "ranges, built-ins, unicode properties, stack operations, WHITESPACE/COMMENT in all combinations) compiled through "
                "pest_typed_derive AND pest_derive; every rule as entry x all strings over the grammar's alphabet up to the length giving "
                "<= 1200 strings; compared: typed try_parse_partial verdict/offset == faithful model (T2) == PEG spec (T3); the spec itself "
                "== real pest on every case where pest returns. non-trivial = accepted with offset > 0; distinct = (rule, input)")
    return ctx.finish(level="proof", trusted_base=tb.BASE + ["pest_meta 2.7.14 parser/optimizer provide the AST (shared by pest and pest-typed)"])
