"""C08: parsing a Span or Position sub-input equals parsing that slice on its own."""
import re

from ..coqbuild import check_property_proofs
from .. import tb, core, rtcat

RE_OK = re.compile(r"^ok@(\d+)")
RE_SPAN = re.compile(r"start: (\d+), end: (\d+) \}")
RE_STACK = re.compile(r"S:\[([^\]]*)\]")
RE_TRK = re.compile(r"T:@(\d+)")
RE_TOK = re.compile(r"\((\d+) (\d+) (\d+)")


def shift_field(v, d):
    """shift every byte offset in a result field by d (rule indices, slice bounds and text stay)"""
    v = RE_OK.sub(lambda m: "ok@%d" % (int(m.group(1)) + d), v)
    v = RE_SPAN.sub(lambda m: "start: %d, end: %d }" % (int(m.group(1)) + d, int(m.group(2)) + d), v)

    def stk(m):
        if not m.group(1):
            return m.group(0)
        return "S:[%s]" % ",".join("%d-%d" % (int(x.split("-")[0]) + d, int(x.split("-")[1]) + d) for x in m.group(1).split(","))
    v = RE_STACK.sub(stk, v)
    v = RE_TRK.sub(lambda m: "T:@%d" % (int(m.group(1)) + d), v)
    return v


def shift_tokens(v, d):
    return RE_TOK.sub(lambda m: "(%s %d %d" % (m.group(1), int(m.group(2)) + d, int(m.group(3)) + d), v)


def check(ctx):
    ok = check_property_proofs(ctx, "C08")
    if not ok:
        ctx.violation("proof obligation for C08 no longer checks", {"broken": [n for n, o, _ in ctx.obligations if not o]}, found_input=False)
    envs, run = core.core_run(ctx.tier)
    fam_of = {e.name: getattr(e, "family", "") for e in envs}
    for p in run.problems:
        ctx.violation("harness problem: " + p, {"problem": p}, found_input=False)
    # the unchecked (release) branches of the sub-input cursors: the release build must print exactly what the debug build prints
    envs_r, run_r = core.core_run(ctx.tier, profile="release")
    for p in run_r.problems[:2]:
        ctx.violation("harness problem (release build): " + p, {"problem": p}, found_input=False)
    if not run_r.problems:
        nrel = 0
        for (a, b, x, aa), (ar, br, xr, aar) in zip(run.records(), run_r.records()):
            if a != ar:
                nrel += 1
                if nrel <= 3:
                    sid_, form_, hx_, ia_, ib_, f_ = rtcat.split_line(a)
                    ctx.violation("sub-input parse differs between the debug and the release build (unchecked slicing of the sub-input cursor): %s vs %s"
                                  % (a[:160], ar[:160]), dict(core.describe(envs, sid_), form=form_, input_hex=hx_, a=ia_, b=ib_, impl_debug=a, impl_release=ar))
        ctx.coverage["debug_release_differences"] = nrel
    fresh = {}
    cur_env = None
    n = t2_bad = t3_bad = nsub = missing = 0
    reported = set()
    plain = {}
    for a, b, x, aa in run.records():
        sid, form, hx, ia, ib, f = rtcat.split_line(a)
        en = sid.split(".")[0]
        if en != cur_env:
            cur_env = en
            fresh = {}
        n += 1
        if a != b:
            t2_bad += 1
            if sid not in plain and len(plain) < 40:
                plain[sid] = ("model/implementation correspondence broken on %s (%s input)" % (sid, form),
                              dict(core.describe(envs, sid), form=form, input_hex=hx, a=ia, b=ib, impl=a, model=b,
                                   broken="correspondence Sem.v / Base.v (input cursors) vs main/src/input.rs"))
        if form == "str":
            fresh[(sid, hx)] = f
            continue
        nsub += 1
        s = bytes.fromhex(hx) if hx != "-" else b""
        sub = s[ia:ib] if form == "span" else s[ia:]
        key = (sid, sub.hex() if sub else "-")
        f0 = fresh.get(key)
        if f0 is None:
            missing += 1
            continue
        why = None
        for k in ("P", "C", "FP", "FC"):
            if k in f0 and shift_field(f0[k], ia) != f.get(k):
                why = "%s on the sub-input is %s, on the fresh slice (shifted by %d) %s" % (k, f.get(k, "")[:120], ia, shift_field(f0[k], ia)[:120])
                break
        if why is None and "TK" in f0 and shift_tokens(f0["TK"], ia) != f.get("TK"):
            why = "tokens differ: %s vs %s" % (f.get("TK", "")[:100], shift_tokens(f0["TK"], ia)[:100])
        if why is None and x is not None and x != "ok":
            why = "entry points disagree on the sub-input: %s" % x[:200]
        if why:
            t3_bad += 1
            if sid not in reported and len(reported) < 6:
                reported.add(sid)
                ctx.violation("sub-input differs from the slice parsed on its own: " + why,
                              dict(core.describe(envs, sid), form=form, input_hex=hx, a=ia, b=ib, impl=a,
                                   fresh={k: v for k, v in f0.items() if not k.startswith("_")}))
        else:
            # non-trivial: a proper sub-range and the run consumed something or looked at the edges
            if (ia > 0 or (form == "span" and ib < len(s))) and not f["P"].startswith("fail;S:[];T:@%d{}" % ia):
                ctx.nontrivial.add((sid, form, hx, ia, ib))
        ctx.count("form=%s" % form)
        ctx.count("family=%s" % fam_of.get(en, ""))
        if nsub % 9973 == 0 and len(ctx.samples) < 6:
            ctx.samples.append({"case": a[:300]})
    # bare correspondence breaks: only for shapes on which no explored sub-input violates the property itself
    k = 0
    for sid, (msg, rep) in plain.items():
        if sid not in reported and k < (2 if reported else 6):
            k += 1
            ctx.violation(msg, rep, found_input=False)
    ctx.evaluations += n
    ctx.coverage.update({"t2_mismatches": t2_bad, "t3_failures": t3_bad, "sub_input_cases": nsub,
                         "sub_input_cases_without_fresh_counterpart": missing,
                         "traces_validated_against_impl": n - t2_bad, "run_cached": run.cached, "exhaustive": True})
    ctx.rule = ("every catalogue shape x every Span(s,a,b) and Position(s,a) over char boundaries of the family's short strings "
                "(misc family: all its strings, incl. multi-byte alphabets); compared field by field (partial/full parse and check, "
                "stack, tracker position and attempts, tokens) with the run on a fresh copy of s[a..b] shifted by a; "
                "non-trivial = proper sub-range and the run consumed or recorded something; distinct = (shape, s, a, b)")
    return ctx.finish(level="proof", trusted_base=tb.BASE)
