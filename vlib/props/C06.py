from ..coqbuild import check_property_proofs
from .. import tb


def check(ctx):
    ok = check_property_proofs(ctx, "C06")
    if not ok:
        ctx.violation("proof obligation for C06 no longer checks", {"broken": [n for n, o, _ in ctx.obligations if not o]}, found_input=False)
    ctx.rule = "T1 only so far"
    return ctx.finish(level="proof", trusted_base=tb.BASE)
