"""C06: stack operations behave as pest specifies and fail gracefully."""
from ..coqbuild import check_property_proofs
from .. import tb, core, rtcat


def norm(i, n):
    if i > n:
        return None
    if i >= 0:
        return i
    return n + i if n + i >= 0 else None


def slice_oracle(ctx, a, b, s):
    """list-slicing model of  (PUSH("ab"|"a"|"b")){0,4} ~ "-" ~ PEEK[a..b]  with ' ' skipped when ctx == 'on'"""
    def skip(p):
        if ctx == 'on':
            while s[p:p + 1] == b' ':
                p += 1
        return p
    pos, words = 0, []
    for i in range(4):
        p = skip(pos) if i > 0 else pos
        for w in (b'ab', b'a', b'b'):
            if s.startswith(w, p):
                words.append(w)
                pos = p + len(w)
                break
        else:
            break
    p = skip(pos)
    if not s.startswith(b'-', p):
        return ("fail", None, len(words))
    p = skip(p + 1)
    n = len(words)
    lo = norm(a, n)
    hi = n if b is None else norm(b, n)
    if lo is None or hi is None:
        return ("fail", None, n)
    text = b''.join(words[lo:hi]) if hi > lo else b''
    if s.startswith(text, p):
        return ("ok", p + len(text), n)
    return ("fail", None, n)


def make_t3(envs):
    by_name = {e.name: e for e in envs}

    def t3(sid, f, x, a):
        got = rtcat.p_core(f["P"])
        if got != a:
            return "parse gives %s but the reference gives %s" % (got[:160], (a or "")[:160])
        cw = rtcat.c_vs_ref(f["C"], a)
        if cw:
            return cw
        if "PANIC" in f["P"] or "PANIC" in f["C"]:
            return "a stack operation panicked: %s" % f["P"][:80]
        en, sn = sid.split(".")
        if en.startswith("sl_on") or en.startswith("sl_off"):
            env = by_name[en]
            sh = env.shapes[int(sn[1:])][2]       # ('seq', ctx, [rep, '-', ('slice', a, b)])
            ctx = sh[1]
            _, aa, bb = sh[2][2]
            hx = f["_hex"]
            s = bytes.fromhex(hx) if hx != "-" else b""
            base = 0
            if f["_form"] == "span":
                s, base = s[f["_a"]:f["_b"]], f["_a"]
            elif f["_form"] == "pos":
                s, base = s[f["_a"]:], f["_a"]
            o = slice_oracle(ctx, aa, bb, s)
            if o[0] == "ok":
                if not f["P"].startswith("ok@%d=" % (o[1] + base)):
                    return "list-slicing model: PEEK[%s..%s] on a stack of %d matches up to %d, parse gives %s" % (aa, bb, o[2], o[1], f["P"][:60])
            elif not f["P"].startswith("fail"):
                return "list-slicing model: PEEK[%s..%s] on a stack of %d must fail, parse gives %s" % (aa, bb, o[2], f["P"][:60])
        return None
    return t3


def nontrivial(sid, f, a):
    # the slice / stack built-in was reached with a non-empty stack
    return "S:[" in f["P"] and ";S:[]" not in f["P"]


def check(ctx):
    ok = check_property_proofs(ctx, "C06")
    if not ok:
        ctx.violation("proof obligation for C06 no longer checks", {"broken": [n for n, o, _ in ctx.obligations if not o]}, found_input=False)
    # what the generator emits for this property's constructs (trailing-skip type / stack built-ins and slices), both AST paths
    from .. import gencore
    gencore.v1(ctx, 150 if ctx.tier == "quick" else 1500, which=("opt", "raw"))
    envs, run = core.core_run(ctx.tier)
    core.scan(ctx, envs, run, ("slices", "stack"), make_t3(envs), nontrivial, "stack built-in off its spec")
    lim = 3 if ctx.tier == "quick" else 6
    ctx.rule = ("stack family (PUSH / POP / DROP / POP_ALL / PEEK / PEEK_ALL under failing and succeeding choices, optionals, repetitions and "
                "predicates nested up to depth 3, incl. predicates whose operand empties the stack) against the reference interpreter; "
                "slices family: PEEK[a..b] / PEEK[a..] for all a, b in -%d..%d on stacks of depth 0..4 (content and depth taken from "
                "the input: (PUSH(\"ab\"|\"a\"|\"b\")){0,4} ~ \"-\" ~ slice), in atomic and non-atomic context, plus PEEK/POP/DROP/"
                "PEEK_ALL/POP_ALL incl. empty stack and PUSH of an empty match; inputs = all pushed prefixes x all suffixes up to the "
                "tier's length; oracles: reference interpreter and an independent list-slicing model; non-trivial = final stack "
                "non-empty; distinct = (shape, input)" % (lim, lim))
    ctx.coverage["exhaustive"] = True
    return ctx.finish(level="proof", trusted_base=tb.BASE)
