"""C13: Span::new/get/start/end/split/as_str/lines/lines_span/merge_spans/== agree with pest::Span.

proof  : Properties/C13.v  (model SpanOps.v = declarative spec, all strings / all valid spans)
T2     : extracted SpanOps.v model  vs  pest_typed::Span (harness/unitpos)
T3     : pest_typed::Span           vs  pest::Span 2.7.14 (same harness)          -- the property's oracle
cases  : every string of <= N characters over {LF, CR, a, e-acute(2), zhong(3)} (N = 5 quick / 7 thorough)
         x every (start, end) in 0..=len+1 squared (valid, inverted, out of range, inside a character)
         x for every valid span: split, as_str, lines_span, lines, get for the 6 range forms and the
           (Excluded, Included) tuple over all bounds 0..=sublen+1 and usize::MAX, merge_spans / == / Hash
           against every valid span of the same string; plus a few longer seeded random strings.
         The get / merge sections travel as digests (same enumeration order on all three sides); a
         differing digest is re-run in full (`V`) to name the exact call."""
from ..common import Rng, log
from ..coqbuild import check_property_proofs
from .. import tb, lineslib as ll

ALPHA = [ll.LF, ll.CR, ll.A, ll.E2, ll.ZH]
FORMS = {0: "x..y", 1: "x..=y", 2: "x..", 3: "..x", 4: "..=x", 5: "..", 6: "(Excluded(x), Included(y))"}


def sections(body):
    return dict(p.split("=", 1) for p in body.split("|"))


def localise(h, a, b, na, nb, exe, drv):
    """a, b: bodies of two sides (names na, nb) that differ; return (what, detail dict)"""
    sa, sb = sections(a), sections(b)
    n = len(ll.unhx(h)) + 2
    if sa.get("new") != sb.get("new"):
        x, y = sa.get("new", ""), sb.get("new", "")
        for i in range(min(len(x), len(y))):
            if x[i] != y[i]:
                return "Span::new(s, %d, %d)" % (i // n, i % n), {"call": "Span::new", "start": i // n, "end": i % n, na: x[i], nb: y[i],
                                                                  "legend": "1 = Some, 0 = None, P = panic"}
        return "Span::new table", {na: x, nb: y}
    if sa.get("sp") != sb.get("sp"):
        for x, y in zip(sa["sp"].split(";"), sb["sp"].split(";")):
            if x != y:
                fx, fy = x.split(":"), y.split(":")
                names = ["span", "start,end", "split", "as_str", "lines_span", "lines"]
                for k in range(min(len(fx), len(fy))):
                    if fx[k] != fy[k]:
                        return "%s of span %s" % (names[k], fx[0]), {"call": names[k], "span": fx[0], na: fx[k], nb: fy[k]}
        return "per-span section", {na: sa["sp"][:500], nb: sb["sp"][:500]}
    # digest sections: re-run in full
    rc_r = ll.run_sharded(exe, ["V " + h], "c13.loc.rust", shards=1)[0]
    rc_m = ll.run_sharded(drv, ["V " + h], "c13.loc.model", shards=1)[0]
    _, sr = ll.split_sides(rc_r)
    _, sm = ll.split_sides(rc_m)
    full = {"impl": sr.get("I"), "oracle_pest": sr.get("P"), "model": sm.get("M")}
    fa, fb = sections(full[na]), sections(full[nb])
    for sec, label in (("get", "Span::get"), ("mrg", "merge_spans/==/Hash")):
        if fa.get(sec) != fb.get(sec):
            for x, y in zip(fa[sec].split(","), fb[sec].split(",")):
                if x != y:
                    d = {"call": label, na: x, nb: y,
                         "legend": "get: span@form(x_y)=result, forms %s, M = usize::MAX, N = None, P = panic; "
                                   "merge: a+b=result/eq,eq-other-input,hash-consistent" % FORMS}
                    return "%s %s" % (label, x.split("=")[0]), d
    return "digest differs but full run agrees (digest/verbose paths inconsistent)", {na: a[-200:], nb: b[-200:]}


def check(ctx):
    proofs_ok = check_property_proofs(ctx, "C13")
    exe, drv = ll.build_all(ctx)
    if exe is None or drv is None:
        ctx.violation("C13 machinery does not build", {"obligations": [n for n, o, _ in ctx.obligations if not o]}, found_input=False)
        return ctx.finish(level="proof", trusted_base=tb.BASE)

    maxlen = 5 if ctx.tier == "quick" else 7
    nrand = 30 if ctx.tier == "quick" else 300
    ctx.nontrivial = ll.CountSet()
    ctx.rule = ("distinct operations (new/split/as_str/lines/lines_span per span, each get call, each merge pair) on "
                "strings that contain a line break or a multi-byte character (strings de-duplicated; counted, not stored)")

    strs, seen = [], set()

    def add(s):
        h = ll.hx(s)
        if h not in seen:
            seen.add(h)
            strs.append(s)

    for s in ll.all_strings(ALPHA, maxlen):
        add(s)
    for s in ll.all_strings([ll.LF, ll.A] + ll.EDGE, 2):      # byte-class edges
        add(s)
    for s in ["abc\ndef\nghi", "Hello World!", "abc123abc", "a\nb\nc", "a\rb\nc\r\nd嗨", "\r\n\r\n", "x\n", "\n\n\n", "é\n中\r\n" + ll.EMO, ll.EMO + "\n" + ll.EMO]:
        add(s)
    rng = Rng(ctx.seed).fork("C13-strings")
    for _ in range(nrand):
        n = 5 + rng.below(8)
        add("".join(rng.choice(ALPHA + [ll.EMO, "\r\n", ll.LF] + (ll.EDGE if n % 3 == 0 else [])) for _ in range(n)))
    cases = ["S " + ll.hx(s) for s in strs]
    log("C13: %d strings (%d exhaustive up to %d chars)" % (len(cases), sum(len(ALPHA) ** k for k in range(maxlen + 1)), maxlen))

    rust = ll.run_sharded(exe, cases, "c13.%s.rust" % ctx.tier)
    model = ll.run_sharded(drv, cases, "c13.%s.model" % ctx.tier)

    t3_bad = t2_bad = 0
    vm_src = []
    for idx, (rl, ml) in enumerate(zip(rust, model)):
        h, sides = ll.split_sides(rl)
        hm, msides = ll.split_sides(ml)
        I, P, M = sides.get("I"), sides.get("P"), msides.get("M")
        if h != hm or I is None or P is None or M is None:
            raise RuntimeError("C13: malformed harness/model output at case %d: %r / %r" % (idx, rl[:200], ml[:200]))
        s = strs[idx]
        if I == "PANIC":
            # some Span operation of pest_typed panicked on this string (pest's does not): e.g. a constructor let an invalid range
            # through and a later slicing tripped over it
            t3_bad += 1
            if t3_bad <= 3:
                ctx.violation("a Span operation panics on a string on which pest::Span answers every call", {"input_hex": h, "input": s, "pest": P[:400]})
            continue
        sec = sections(I)
        nvalid = sec["new"].count("1")
        nget = int(sec["get"].rsplit(":", 1)[1]) if sec["get"].startswith("#") else 0
        nmrg = int(sec["mrg"].rsplit(":", 1)[1]) if sec["mrg"].startswith("#") else 0
        n = len(sec["new"]) + 5 * nvalid + nget + nmrg
        ctx.evaluations += n
        ctx.count("chars=%s" % (len(s) if len(s) <= 6 else "7+"))
        ctx.count("calls:Span::new", len(sec["new"]))
        ctx.count("calls:Span::new -> None", len(sec["new"]) - nvalid)
        ctx.count("calls:get", nget)
        ctx.count("calls:merge_spans", nmrg)
        ctx.count("calls:lines_span+lines+split+as_str", 4 * nvalid)
        if any(c in s for c in "\n\r") or len(s.encode("utf8")) != len(s):
            ctx.nontrivial.add_n(5 * nvalid + nget + nmrg)
        if "\n" in s:
            ctx.count("strings with LF")
        if idx % 97 == 11 and len(ctx.samples) < 12:
            ctx.samples.append({"input_hex": h, "impl": I[:300], "pest": P[:300], "model": M[:300]})
        if idx % 13 == 7 and len(s) >= 2:
            vm_src.append((h, M))
        if I != P:
            t3_bad += 1
            if t3_bad <= 3:
                what, d = localise(h, I, P, "impl", "oracle_pest", exe, drv)
                d.update({"input_hex": h, "input": s, "rerun": "echo 'V %s' | .cache/target/debug/unitpos" % h})
                ctx.violation("%s differs from pest::Span" % what, d)
        if I != M:
            t2_bad += 1
            if t2_bad <= 3 and I == P:
                what, d = localise(h, I, M, "impl", "model", exe, drv)
                d.update({"input_hex": h, "input": s})
                ctx.violation("correspondence SpanOps.v vs span.rs broken at %s (impl agrees with pest on this case: the model no longer describes the code)" % what, d, found_input=False)
    ctx.oblige("T3 pest_typed::Span == pest::Span on all %d calls" % ctx.evaluations, t3_bad == 0, "%d strings differ" % t3_bad)
    ctx.oblige("T2 extracted SpanOps.v model == pest_typed::Span on all calls", t2_bad == 0, "%d strings differ" % t2_bad)

    # cross-check of the extraction on a seeded sample: vm_compute inside coqc must reproduce the OCaml results
    ex = []
    r2 = Rng(ctx.seed).fork("C13-vm")
    if vm_src:
        picks = [vm_src[r2.below(len(vm_src))] for _ in range(8)]
        full = ll.run_sharded(drv, ["V " + h for h, _ in picks], "c13.vm.model", shards=1)
        for (h, M), fl in zip(picks, full):
            bs = ll.coq_bytes(h)
            n = len(ll.unhx(h)) + 2
            sec = sections(ll.split_sides(fl)[1]["M"])
            # Span::new
            for _k in range(2):
                i = r2.below(len(sec["new"]))
                a, e = i // n, i % n
                ex.append(("new", "span_new %s %d %d = %s" % (bs, a, e, "Some (%d, %d)" % (a, e) if sec["new"][i] == "1" else "None")))
            # lines_span of one span
            items = sec["sp"].split(";")
            f = items[r2.below(len(items))].split(":")
            a, e = f[0].split("-")
            if f[4].startswith("["):
                sp = [x.split("-") for x in f[4][1:-1].split(",") if x]
                ex.append(("lines_span", "lines_span %s (%s, %s) = LOk [%s]" % (bs, a, e, "; ".join("(%s, %s)" % (x, y) for x, y in sp))))
            # get
            gets = [g for g in sec["get"].split(",") if g]
            for _k in range(2):
                g = gets[r2.below(len(gets))]
                lhs, res = g.split("=")
                spn, rest = lhs.split("@")
                form, args = int(rest[0]), rest[2:-1].split("_")
                a, e = spn.split("-")
                num = lambda v: "usize_max" if v == "M" else "%s%%N" % v
                x, y = num(args[0]), num(args[1])
                lo, hi = {0: ("BIncl %s" % x, "BExcl %s" % y), 1: ("BIncl %s" % x, "BIncl %s" % y), 2: ("BIncl %s" % x, "BUnb"),
                          3: ("BUnb", "BExcl %s" % x), 4: ("BUnb", "BIncl %s" % x), 5: ("BUnb", "BUnb"),
                          6: ("BExcl %s" % x, "BIncl %s" % y)}[form]
                rr = "MPanic" if res == "P" else "MOk None" if res == "N" else "MOk (Some (%s, %s))" % tuple(res.split("-"))
                ex.append(("get", "span_get %s (%s, %s) (%s) (%s) = %s" % (bs, a, e, lo, hi, rr)))
            # merge
            ms = [m for m in sec["mrg"].split(",") if m]
            m = ms[r2.below(len(ms))]
            lhs, res = m.split("=")
            s1, s2 = lhs.split("+")
            res = res.split("/")[0]
            rr = "None" if res == "N" else "Some (%s, %s)" % tuple(res.split("-"))
            ex.append(("merge", "merge_spans %s (%s, %s) (%s, %s) = %s" % (bs, *s1.split("-"), *s2.split("-"), rr)))
    hdr = ("From Coq Require Import List NArith.\nFrom PT Require Import Model.Base Model.Lines Model.SpanOps.\n"
           "Import ListNotations.\n")
    ok, msg = ll.vm_check(ctx, "C13_%s" % ctx.tier, hdr, ex)
    ctx.oblige("extraction cross-check: %d sampled calls, vm_compute in coqc == extracted OCaml" % len(ex), ok and len(ex) > 0, msg)

    if not proofs_ok and not ctx.violations:
        ctx.violation("proof obligation for C13 no longer checks", {"broken": [n for n, o, _ in ctx.obligations if not o]}, found_input=False)
    elif any(not o for _, o, _ in ctx.obligations) and not ctx.violations:
        ctx.violation("C13 obligation failed", {"broken": [n for n, o, _ in ctx.obligations if not o]}, found_input=False)
    return ctx.finish(level="proof", trusted_base=tb.BASE + [
        "Model/SpanOps.v and Model/Lines.v are hand transcriptions of span.rs / position.rs (tied by the T2 differential run only)",
        "debug-profile semantics for `offset + 1` on usize::MAX (panic) and for the debug_assert in Position::new_unchecked",
        "get/merge results are compared through a 60-bit rolling digest per string (collision would hide a difference)",
    ])
