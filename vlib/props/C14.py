"""C14: formatting any valid Span / Position never panics and shows / marks the right text.

proof : Properties/C14.v   totality and `output = render(specification)` of the model Model/Format.v for all valid
                           UTF-8 inputs and all valid spans / positions, with refutation witnesses and explicit
                           exclusions where the code as found deviates (see the theorem list in NOTES-agents.md)
T2    : extracted model (ocaml/Format_drv.ml)  vs  the real formatter (harness/unitfmt), `to_string()` and the
        output through a recording FormatOption, panics included -- the model is bug-for-bug
T3    : the real formatter  vs  an independent oracle of the property (oracle_* below: which lines, numbers,
        texts, marker columns the statement demands; no panic)
T4    : model vs the Coq specification (FormatSpec.spec_span/spec_pos, extracted) outside the exclusions
cases : every string of <= N characters over {LF, CR, TAB, a, zhong (wide), e-acute} (N = 5 quick / 6 thorough,
        the empty string included) x every valid span and position; 6..12-line and 101-line texts for the
        ellipsis and the gutter width; seeded random longer texts.
The width of a character is read from the real `unicode-width` crate (harness mode W) and handed to the model.
"""
import json
import os
import re
import shutil
from concurrent.futures import ProcessPoolExecutor

from ..common import CACHE, COQ, REPO, VERIF, NCPU, Rng, run, log, sha, load_known_findings
from ..coqbuild import check_property_proofs
from .. import tb, build

PID = "C14"
HSRC = os.path.join(VERIF, "harness", "unitfmt")
HDST = os.path.join(CACHE, "harness", "unitfmt")
WORK = os.path.join(CACHE, "fmt")

ALPHA = ["\n", "\r", "\t", "a", "中", "é"]
EXTRA = [" ", "\x00", "\x1f", "\x7f", "ß", "∆", "Z", "0", "b",
         # display-width classes: East-Asian-ambiguous (width 1, width_cjk 2), combining (0), emoji (2)
         "§", "—", "°", "×", "\u0301", "\U0001F600",
         # C1 control characters: `char::is_control` holds of them, but they have no picture and must pass through unchanged
         "\u0080", "\u0085", "\u009b", "\u009f"]
WIDTHS = ["a", "§", "中", "\u0301", "\n"]
# character SEQUENCES whose display width is not the sum of the widths of their characters (emoji + skin tone, ZWJ family, text +
# VS16, keycap, Arabic lam-alef): formatter.rs measures whole pieces with UnicodeWidthStr::width_cjk
SEQ_ATOMS = ["\U0001F44D\U0001F3FD", "\U0001F468\u200d\U0001F469\u200d\U0001F467", "\u2600\ufe0f", "1\ufe0f\u20e3", "\u0644\u0627",
             "a", "\n", "中"]
SEQ_CHARS = set("".join(a for a in SEQ_ATOMS if len(a) > 1))


class WTab(dict):
    """character -> display cells (from the real crate), plus .st: run of >= 2 characters -> display cells of the STRING"""

    def sw(self, t):
        if len(t) >= 2:
            w = self.st.get(t)
            if w is not None:
                return w
        return sum(self[c] for c in t)


def seq_corpus():
    out = []
    for a in SEQ_ATOMS:
        out.append(a)
        for b in SEQ_ATOMS:
            out.append(a + b)
    for a in SEQ_ATOMS[:5]:
        out += ["a" + a + "b\n" + a, a + "\n" + a + "a", "中" + a + a]
    return list(dict.fromkeys(out))

# decidable classes of the candidate findings: name -> (classifier(kind, sb, a, b), what)
CLASSES = {
    "span_on_empty_input": (
        lambda kind, sb, a, b: kind == "S" and len(sb) == 0,
        "formatting a Span of the empty input panics (start.unwrap() on None)"),
    "span_starts_at_line_start": (
        lambda kind, sb, a, b: kind == "S" and 0 < a < len(sb) and sb[a - 1] == 0x0A,
        "a Span that starts exactly at the start of a line k>1 is rendered from line k-1 (marker after its line break)"),
    "position_at_end_of_input": (
        lambda kind, sb, a, b: kind == "P" and a == len(sb) and len(sb) > 0,
        "a Position at end of input renders nothing instead of the last line"),
}


# ---------------------------------------------------------------------------------------------
# the property's oracle (independent of the model): what must be shown
# ---------------------------------------------------------------------------------------------

def vis(t):
    return "".join(chr(0x2400 + ord(c)) if ord(c) < 0x20 else ("␡" if ord(c) == 0x7F else c) for c in t)


def split_lines(sb):
    """cut after every LF; no empty line after a final LF; the empty input has no line"""
    return re.findall(rb"[^\n]*\n|[^\n]+", sb)


def oracle_items(kind, sb, a, b, W):
    """the sequence of printed lines the statement demands, as items
         ('blank',) | ('mark', column, marks) | ('ell',) | ('row', number, text, text_inside_span or None)
       None for the empty input (nothing is demanded beyond not panicking)"""
    def wd(bs):
        return W.sw(vis(bs.decode("utf8")))
    lines = split_lines(sb)
    if not lines:
        return None
    offs = [0]
    for l in lines:
        offs.append(offs[-1] + len(l))

    def holding(k):  # the line holding the byte at offset k; the last line at end of input
        return sb[:k].count(b"\n") if k < len(sb) else len(lines) - 1
    if kind == "P":
        i = holding(a)
        l = lines[i]
        return [("blank",), ("row", i + 1, vis(l.decode("utf8")), None), ("mark", wd(l[:a - offs[i]]), "^")]
    F = holding(a)
    L = holding(b - 1) if b > a else F

    def row(i):
        l = lines[i]
        lo, hi = max(a, offs[i]) - offs[i], min(b, offs[i + 1]) - offs[i]
        return ("row", i + 1, vis(l.decode("utf8")), vis(l[lo:hi].decode("utf8")))
    if F == L:
        l = lines[F]
        return [("blank",), row(F),
                ("mark", wd(l[:a - offs[F]]), "^" * wd(l[a - offs[F]:b - offs[F]]))]
    idx = list(range(F, L + 1))
    items = [("mark", wd(lines[F][:a - offs[F]]), "v")]
    if len(idx) <= 5:
        items += [row(i) for i in idx]
    else:
        items += [row(F), row(F + 1), ("ell",), row(L - 1), row(L)]
    # the last cell of the last character; a zero-width character (a combining mark) is drawn in the cell of what precedes
    # it, and in cell 0 when nothing does
    items.append(("mark", max(0, wd(lines[L][:b - offs[L]]) - 1), "^"))
    return items


MARK_RE = re.compile("^ ( *)\x03([v^]*)\x04$")
SPAN_RE = re.compile("\x01([^\x02]*)\x02")


def parse_recorded(R, kind):
    """printed lines of the recording output -> items as above (+ ('junk', text)); also the gutter widths"""
    if R == "":
        return [], set()
    if not R.endswith("\n"):
        return [("junk", "no final newline")], set()
    items, gw = [], set()
    for ln in R[:-1].split("\n"):
        k = ln.find("\x05|\x06")
        if k < 0:
            items.append(("junk", ln))
            continue
        gutter, rest = ln[:k], ln[k + 3:]
        g = gutter.replace("\x05", "").replace("\x06", "")
        gw.add(len(g))
        if g.strip(" ") == "":
            m = MARK_RE.match(rest)
            if rest == "":
                items.append(("blank",))
            elif rest == " ...":
                items.append(("ell",))
            elif m:
                items.append(("mark", len(m.group(1)), m.group(2)))
            else:
                items.append(("junk", ln))
        else:
            m = re.match("^\x05( *[0-9]+)\x06 $", gutter)
            if not m or not rest.startswith(" "):
                items.append(("junk", ln))
                continue
            text = rest[1:]
            parts = SPAN_RE.findall(text)
            plain = text.replace("\x01", "").replace("\x02", "")
            inside = None if (kind == "P" and not parts and "\x01" not in text) else "".join(parts)
            items.append(("row", int(m.group(1)), plain, inside))
    return items, gw


def strip_brackets(R):
    return re.sub("[\x01-\x06]", "", R)


def t3_verdict(kind, sb, a, b, D, R, W):
    """None if the real output meets the statement, else a short reason"""
    if D == "PANIC" or R == "PANIC":
        return "panic"
    if D in ("FMTERR", "INVALID") or R in ("FMTERR", "INVALID"):
        return "unexpected " + D
    d = bytes.fromhex(D).decode("utf8")
    r = bytes.fromhex(R).decode("utf8")
    if strip_brackets(r) != d:
        return "default and recording option print different text"
    want = oracle_items(kind, sb, a, b, W)
    got, gw = parse_recorded(r, kind)
    if want is None:
        return None if not any(i[0] == "row" for i in got) else "rows shown for the empty input"
    if len(gw) > 1:
        return "gutter not aligned"
    if got != want:
        for i, (x, y) in enumerate(zip(got + [None] * len(want), want + [None] * len(got))):
            if x != y:
                return "printed line %d: shown %r, demanded %r" % (i + 1, x, y)
    return None


# ---------------------------------------------------------------------------------------------
# cases
# ---------------------------------------------------------------------------------------------

def hx(sb):
    return sb.hex() if sb else "-"


def boundaries(s):
    out, k = [0], 0
    for c in s:
        k += len(c.encode("utf8"))
        out.append(k)
    return out


def all_strings(alphabet, maxlen):
    cur = [""]
    yield ""
    for _ in range(maxlen):
        cur = [s + c for s in cur for c in alphabet]
        for s in cur:
            yield s


def cases_of(s, spans=None, positions=None):
    """case lines (without model flags) for all (or the given) spans and positions of s"""
    sb = s.encode("utf8")
    h = hx(sb)
    bd = boundaries(s)
    out = []
    if spans is None:
        spans = [(x, y) for i, x in enumerate(bd) for y in bd[i:]]
    if positions is None:
        positions = bd
    for x, y in spans:
        out.append("S %s %d %d" % (h, x, y))
    for p in positions:
        out.append("P %s %d" % (h, p))
    return out


def multi_line_corpus():
    """texts of 6..12 lines (ellipsis rule, numbers 9 -> 10) and of 101 lines (numbers 99 -> 100)"""
    out = []
    pool = ["a", "", "中b", "é\r", "\tx", "ab"]
    for n in range(6, 13):
        for final_nl in (True, False):
            ls = [pool[(i * 5 + n) % len(pool)] for i in range(n)]
            if not final_nl and ls[-1] == "":
                ls[-1] = "z"
            s = "\n".join(ls) + ("\n" if final_nl else "")
            out += cases_of(s)
    ls = [str(i) if i % 7 else "中%d" % i for i in range(101)]
    s = "\n".join(ls) + "\n"
    bd = boundaries(s)
    starts = [x for x in bd if x < 40] + [x for x in bd if s.encode()[:x].count(b"\n") in (8, 9, 10, 97, 98, 99, 100)]
    spans = []
    for x in starts[::2]:
        for y in starts[1::3] + [bd[-1], bd[-2]]:
            if x <= y:
                spans.append((x, y))
    out += cases_of(s, spans=spans, positions=starts)
    return out


def random_corpus(rng, n):
    out = []
    chars = ALPHA + EXTRA
    for _ in range(n):
        ln = 6 + rng.below(60)
        p_lf = rng.choice([5, 15, 35])
        s = "".join("\n" if rng.below(100) < p_lf else rng.choice(chars) for _ in range(ln))
        bd = boundaries(s)
        spans = []
        for _ in range(12):
            x = rng.choice(bd)
            y = rng.choice(bd)
            spans.append((min(x, y), max(x, y)))
        # the interesting offsets: line starts, ends, end of input
        sb = s.encode("utf8")
        ls = [k for k in bd if k > 0 and sb[k - 1] == 0x0A]
        for x in ls[:4]:
            spans.append((x, x))
            spans.append((x, rng.choice([y for y in bd if y >= x])))
        spans.append((bd[-1], bd[-1]))
        pos = [rng.choice(bd) for _ in range(4)] + ls[:3] + [bd[-1]]
        out += cases_of(s, spans=sorted(set(spans)), positions=sorted(set(pos)))
    return out


def parse_case(line):
    p = line.split(" ")
    sb = b"" if p[1] == "-" else bytes.fromhex(p[1])
    if p[0] == "S":
        return "S", sb, int(p[2]), int(p[3])
    return "P", sb, int(p[2]), None


# ---------------------------------------------------------------------------------------------
# building and running
# ---------------------------------------------------------------------------------------------

def write_if_changed(path, txt):
    if not os.path.exists(path) or open(path).read() != txt:
        with open(path, "w") as f:
            f.write(txt)
        return True
    return False


def build_harness(ctx):
    os.makedirs(os.path.join(HDST, "src"), exist_ok=True)
    tpl = open(os.path.join(HSRC, "Cargo.toml.in")).read().replace("@REPO@", os.path.abspath(REPO))
    write_if_changed(os.path.join(HDST, "Cargo.toml"), tpl)
    write_if_changed(os.path.join(HDST, "src", "main.rs"), open(os.path.join(HSRC, "src", "main.rs")).read())
    sub = None if os.path.realpath(REPO) == "/repo" else "alt-" + sha(os.path.realpath(REPO))[:10]
    ok, out = build.cargo_build(HDST, "debug", target_sub=sub)
    ctx.oblige("cargo build harness/unitfmt against %s" % REPO, ok, "" if ok else out)
    return os.path.join(out, "unitfmt") if ok else None


def width_table(exe, chars, strings=()):
    """display widths (width_cjk, as formatter.rs calls it) of the given characters, from the real crate; for the given strings
    also the width of every run of two or more characters of each of their (visualized) lines"""
    s = "".join(sorted(set(chars)))
    rc, so, se = run([exe], input="W %s\n" % hx(s.encode("utf8")), timeout=60)
    W = WTab()
    W.st = {}
    for item in so.strip().split(","):
        cp, wc, _w = item.split(":")
        W[chr(int(cp))] = int(wc)
    strings = sorted(set(strings))
    if strings:
        vlines = sorted({vis(l.decode("utf8")) for t in strings for l in split_lines(t.encode("utf8"))})
        q = "".join("X %s\n" % hx(l.encode("utf8")) for l in vlines)
        rc, so, se = run([exe], input=q, timeout=300)
        for line in so.split("\n"):
            for item in line.split(","):
                if ":" in item:
                    h, w = item.split(":")
                    W.st[bytes.fromhex(h).decode("utf8")] = int(w)
    return W


def run_lines(cmd, lines, timeout=1200):
    rc, so, se = run(cmd, input="\n".join(lines) + "\n", timeout=timeout)
    return rc, so.split("\n")[:-1] if so else [], se


def chunk_worker(args):
    """one shard: run harness and model, T2 / T3 / T4; returns a summary dict"""
    (idx, lines, exe, drv, flags, tline, W, suppress) = args
    rc1, impl, se1 = run_lines([exe], lines)
    mlines = tline.split("\n") + ["%s %s %s" % (l[0], flags, l[2:]) for l in lines]
    rc2, model, se2 = run_lines([drv], mlines)
    res = {"n": len(lines), "errors": [], "t2": [], "t2n": 0, "t3": {}, "t3n": {}, "t4": [], "t4n": 0,
           "hist": {}, "nontrivial": 0, "panics": 0, "samples": []}
    if rc1 != 0 or len(impl) != len(lines):
        res["errors"].append("harness: rc=%s, %d answers for %d cases: %s" % (rc1, len(impl), len(lines), se1[-300:]))
        return res
    if rc2 != 0 or len(model) != len(lines):
        res["errors"].append("model driver: rc=%s, %d answers for %d cases: %s" % (rc2, len(model), len(lines), se2[-300:]))
        return res
    fa, fc = flags[0] == "1", flags[1] == "1"
    for line, il, ml in zip(lines, impl, model):
        kind, sb, a, b = parse_case(line)
        ip = dict(x.split("=", 1) for x in il.split(" ") if "=" in x)
        mp = dict(x.split("=", 1) for x in ml.split(" ") if "=" in x)
        if "D" not in ip or "D" not in mp or ml.endswith(" U"):
            res["errors"].append("unparsable answer for %s: impl %r model %r" % (line, il[:80], ml[:80]))
            continue
        nlf = sb.count(b"\n")
        key = "%s lines=%s" % (kind, nlf + (0 if sb.endswith(b"\n") or not sb else 1) if nlf < 6 else "6+")
        res["hist"][key] = res["hist"].get(key, 0) + 1
        if nlf or any(c >= 0x80 or c < 0x20 for c in sb):
            res["nontrivial"] += 1
        if ip["D"] == "PANIC":
            res["panics"] += 1
        # T2
        agree = ip["D"] == mp["D"] and ip["R"] == mp["R"]
        if not agree:
            res["t2n"] += 1
            if len(res["t2"]) < 3:
                res["t2"].append({"case": line, "impl": il, "model": "D=%s R=%s" % (mp["D"], mp["R"])})
        # T3
        why = t3_verdict(kind, sb, a, b, ip["D"], ip["R"], W)
        if why is None and ip.get("F", "1") != "1":
            why = ("formatted through a placeholder with a precision / width / alignment ({:.1}, {:6}, {:>9}, {:*^4.2}) the snippet "
                   "differs from what {} prints (numbers, texts or markers are clipped or padded)")
        if why is not None:
            # a failure belongs to a finding class iff the case satisfies the class's classifier AND the model
            # (which has that deviation built in) predicts the real output exactly; anything else is unmodelled
            cls = [c for c, (f, _) in CLASSES.items() if f(kind, sb, a, b)]
            if cls and agree:
                c = cls[0] if cls[0] in suppress else "!" + cls[0]
            else:
                c = "!unmodelled"
            res["t3n"][c] = res["t3n"].get(c, 0) + 1
            cur = res["t3"].get(c)
            rank = (len(line), kind == "S" and a == b)       # shortest; a non-empty span before an empty one
            if cur is None or rank < cur["rank"]:
                res["t3"][c] = {"case": line, "impl": il, "model": "D=%s R=%s" % (mp["D"], mp["R"]), "why": why,
                                "rank": rank}
        # T4: outside the exclusions of the theorems the model equals the Coq specification
        excl = False
        if kind == "S":
            excl = (len(sb) == 0 and not fa) or CLASSES["span_starts_at_line_start"][0](kind, sb, a, b)
        else:
            excl = (a == len(sb) and len(sb) > 0 and not fc)
        if not excl and mp["R"] != mp["Q"]:
            res["t4n"] += 1
            if len(res["t4"]) < 3:
                res["t4"].append({"case": line, "model": mp["R"], "spec": mp["Q"]})
        if idx % 7 == 0 and len(res["samples"]) < 1 and nlf:
            res["samples"].append({"case": line, "impl": il[:160]})
    return res


def describe(line, W=None):
    kind, sb, a, b = parse_case(line)
    d = {"kind": "span" if kind == "S" else "position", "input_hex": sb.hex(), "input": sb.decode("utf8"),
         "start" if kind == "S" else "pos": a}
    if kind == "S":
        d["end"] = b
    d["harness_case_line"] = line
    d["reproduce"] = "echo '%s' | %s" % (line, os.path.join(CACHE, "target", "debug", "unitfmt"))
    return d


def decode_answer(ans):
    out = {}
    for x in ans.split(" "):
        if "=" in x:
            k, v = x.split("=", 1)
            try:
                out[k] = bytes.fromhex(v).decode("utf8") if v not in ("PANIC", "FUEL", "INVALID", "FMTERR") else v
            except ValueError:
                out[k] = v
    return out


def coq_crosscheck(ctx, drv, tline, W, flags, sample):
    """the same sample through `vm_compute` inside coqc: the extraction computes what the Coq term computes"""
    os.makedirs(WORK, exist_ok=True)
    mlines = tline.split("\n") + ["%s %s %s" % (l[0], flags, l[2:]) for l in sample]
    rc, model, se = run_lines([drv], mlines)
    if rc != 0 or len(model) != len(sample):
        ctx.oblige("vm_compute cross-check of the extraction", False, "driver failed")
        return

    def nlist(bs):
        return "[" + "; ".join(str(x) for x in bs) + "]"
    v = ["From Coq Require Import List NArith.", "From PT Require Import Model.Base Model.Format.",
         "Import ListNotations.", "Open Scope N_scope.",
         "Definition wc (c : N) : nat := match c with %s | _ => 1%%nat end." %
         " ".join("| %d => %d%%nat" % (ord(c), W[c]) for c in sorted(W)),
         "Definition w (t : list N) : nat := list_sum (map wc t).",
         "Definition obs (r : fr (list piece)) : option (list N) * nat :=",
         "  match r with ROk ps => (Some (flat_rec ps), 0%nat) | RPanic => (None, 1%nat) | RFuel => (None, 2%nat) end."]
    fa = "true" if flags[0] == "1" else "false"
    fc = "true" if flags[1] == "1" else "false"
    for i, (line, ml) in enumerate(zip(sample, model)):
        kind, sb, a, b = parse_case(line)
        mp = dict(x.split("=", 1) for x in ml.split(" ") if "=" in x)
        if mp["R"] == "PANIC":
            exp = "(None, 1%nat)"
        elif mp["R"] == "FUEL":
            exp = "(None, 2%nat)"
        else:
            exp = "(Some %s, 0%%nat)" % nlist([ord(c) for c in bytes.fromhex(mp["R"]).decode("utf8")])
        call = ("display_span w %s %s %d%%nat %d%%nat" % (fa, nlist(sb), a, b) if kind == "S"
                else "display_position w %s %s %d%%nat" % (fc, nlist(sb), a))
        v.append("Example x%d : obs (%s) = %s. Proof. vm_compute. reflexivity. Qed." % (i, call, exp))
    path = os.path.join(WORK, "xcheck.v")
    with open(path, "w") as f:
        f.write("\n".join(v) + "\n")
    rc, so, se = run(["timeout", "600", "coqc", "-Q", os.path.join(COQ, "theories"), "PT", "-w", "-notation-overridden",
                      "-o", os.path.join(WORK, "xcheck.vo"), path], cwd=WORK, timeout=630)
    ctx.oblige("vm_compute cross-check of the extraction on %d sampled cases" % len(sample), rc == 0, (so + se)[-1500:])


def check(ctx):
    proofs_ok = check_property_proofs(ctx, PID)
    exe = build_harness(ctx)
    ok, drv = build.build_extraction("Format") if proofs_ok or os.path.exists(
        os.path.join(COQ, "theories", "Model", "FormatSpec.vo")) else (False, "Coq model not built")
    ctx.oblige("extraction + ocamlopt of the Format model", ok, "" if ok else drv)
    if exe is None or not ok:
        ctx.violation("C14 machinery does not build", {"obligations": [n for n, o, _ in ctx.obligations if not o]},
                      found_input=False)
        return ctx.finish(level="proof", trusted_base=tb.BASE)

    # which code is under test: as found, or with the repairs of proposed_fixes/ applied?
    rc, probe, _ = run_lines([exe], ["S - 0 0", "P 61 1"])
    fa = "0" if probe[0].startswith("D=PANIC") else "1"
    fc = "0" if probe[1] == "D= R=" else "1"
    flags = fa + fc
    ctx.coverage["code_variant"] = {"F4a_repaired": fa == "1", "F4c_repaired": fc == "1"}

    quick = ctx.tier == "quick"
    maxlen = 5 if quick else 6
    lines = []
    for s in all_strings(ALPHA, maxlen):
        lines += cases_of(s)
    for s in all_strings(WIDTHS, 4 if quick else 5):      # every mix of display-width classes on one or two lines
        lines += cases_of(s)
    n_exh = len(lines)
    lines += multi_line_corpus()
    # the snapshot inputs of formatter.rs's own tests
    for s in ["123\n456\n789\n", "123\r\n456\r\n789\r\n", "123\n456\n789\nabc\ndef\nghi\n", "ß\n∆\n中\n"]:
        lines += cases_of(s)
    lines += random_corpus(Rng(ctx.seed).fork("C14-texts"), 300 if quick else 3000)
    seq_strings = seq_corpus()
    for s in seq_strings:
        lines += cases_of(s)
    lines = list(dict.fromkeys(lines))

    allchars = set(ALPHA + EXTRA)
    for h in {l.split(" ")[1] for l in lines}:
        allchars.update((b"" if h == "-" else bytes.fromhex(h)).decode("utf8"))
    W = width_table(exe, set(vis("".join(allchars))) | allchars, seq_strings)
    tline = "T " + ",".join("%d:%d" % (ord(c), w) for c, w in sorted(W.items()))
    tline += "\nX " + ",".join("%s:%d" % (t.encode("utf8").hex(), w) for t, w in sorted(W.st.items()))
    ctx.coverage["width_table"] = {("U+%04X" % ord(c)): w for c, w in sorted(W.items())}
    ctx.coverage["string_width_entries"] = len(W.st)
    ctx.coverage["string_widths_that_are_not_the_sum"] = sum(1 for t, w in W.st.items() if w != sum(W[c] for c in t))

    kf = [f for f in load_known_findings() if f.get("property") == PID and f.get("status") == "known"]
    suppress = {f.get("class") for f in kf if f.get("class") in CLASSES}

    nshard = max(1, min(4 * NCPU, len(lines) // 4000))
    size = (len(lines) + nshard - 1) // nshard
    jobs = [(i, lines[i * size:(i + 1) * size], exe, drv, flags, tline, W, suppress) for i in range(nshard)]
    jobs = [j for j in jobs if j[1]]
    with ProcessPoolExecutor(max_workers=NCPU) as ex:
        results = list(ex.map(chunk_worker, jobs))

    errors, t2, t4 = [], [], []
    t2n = t4n = 0
    t3, t3n = {}, {}
    ctx.nontrivial = CountSet()
    for r in results:
        errors += r["errors"]
        ctx.evaluations += r["n"]
        ctx.nontrivial.n += r["nontrivial"]
        t2 += r["t2"]
        t2n += r["t2n"]
        t4 += r["t4"]
        t4n += r["t4n"]
        for k, v in r["hist"].items():
            ctx.count(k, v)
        for c, n in r["t3n"].items():
            t3n[c] = t3n.get(c, 0) + n
        for c, v in r["t3"].items():
            if c not in t3 or tuple(v["rank"]) < tuple(t3[c]["rank"]):
                t3[c] = v
        ctx.samples += r["samples"]
        ctx.coverage["impl_panics"] = ctx.coverage.get("impl_panics", 0) + r["panics"]
    ctx.rule = ("distinct (input, span-or-position) cases whose input contains a line break, a control character or a "
                "non-ASCII character (case lines are de-duplicated; counted)")
    ctx.coverage["cases"] = {"exhaustive_len<=%d" % maxlen: n_exh, "total": len(lines)}
    ctx.coverage["t3_failures_by_class"] = {k.lstrip("!"): v for k, v in t3n.items()}

    ctx.oblige("harness and model driver answered every case", not errors, "; ".join(errors[:3]))
    if errors:
        ctx.violation("C14 machinery failed on some cases", {"errors": errors[:5]}, found_input=False)

    ctx.oblige("T4: model output = Coq specification on every explored case outside the exclusions", t4n == 0,
               json.dumps(t4[:2]))

    # T3 (and the classification of its failures)
    reported_cases = set()
    for c, v in sorted(t3.items()):
        n = t3n[c]
        if not c.startswith("!"):
            what = CLASSES[c][1]
            ctx.known.append("%s [class %s: %d explored cases, model predicts each output exactly; e.g. %s]" % (
                what, c, n, v["case"]))
            continue
        cname = c[1:]
        what = CLASSES[cname][1] if cname in CLASSES else "output does not meet the statement: " + v["why"]
        rep = describe(v["case"])
        rep.update({"class": cname, "cases_in_class": n, "why": v["why"], "impl": decode_answer(v["impl"]),
                    "model": decode_answer(v["model"])})
        kind, sb, a, b = parse_case(v["case"])
        rep["oracle"] = repr(oracle_items(kind, sb, a, b, W))
        ctx.violation("T3 %s: %s (%d cases; smallest: %s)" % (cname, what, n, v["case"]), rep)
        reported_cases.add(v["case"])

    # T2
    ctx.oblige("T2: model and implementation agree on every explored case (panics included)", t2n == 0,
               json.dumps(t2[:2]))
    if t2n:
        v = sorted(t2, key=lambda x: len(x["case"]))[0]
        rep = describe(v["case"])
        rep.update({"impl": decode_answer(v["impl"]), "model": decode_answer(v["model"]), "mismatches": t2n})
        kind, sb, a, b = parse_case(v["case"])
        rep["oracle"] = repr(oracle_items(kind, sb, a, b, W))
        ctx.violation("T2: the formatter no longer behaves as its model (%d cases; smallest: %s)" % (t2n, v["case"]), rep)

    if not proofs_ok:
        broken = [n for n, o, _ in ctx.obligations if not o]
        ctx.violation("proof obligation for C14 no longer checks", {"broken": broken},
                      found_input=bool(reported_cases))

    # extraction cross-check on a seeded sample
    rng = Rng(ctx.seed).fork("C14-xcheck")
    sample = [lines[rng.below(len(lines))] for _ in range(40)] + ["S - 0 0", "S 610a62 2 3", "P 61 1"]
    sample = [l for l in sample if len(l) < 200 and not (SEQ_CHARS & set(parse_case(l)[1].decode("utf8")))]
    coq_crosscheck(ctx, drv, tline, W, flags, sample)
    if not all(o for _, o, _ in ctx.obligations) and not ctx.violations:
        ctx.violation("an obligation of the C14 check failed", {"broken": [n for n, o, _ in ctx.obligations if not o]},
                      found_input=False)

    return ctx.finish(level="proof", trusted_base=tb.BASE + [
        "Model/Format.v is a hand-written model of main/src/formatter.rs (tied by T2 on every explored case)",
        "the display width of a string is an arbitrary function in the theorems; in the runs character widths are read from the real "
        "unicode-width crate for the tested alphabet, and for the sequence corpus (emoji + modifier, ZWJ, VS16, keycap, lam-alef: where "
        "unicode-width deviates from the sum over the characters) the width of every run of characters of every line as well; other runs "
        "are measured as the sum of their characters (T2 would show a deviation)",
        "the line iterator of the model searches LF on bytes (equivalent to the char_indices search on valid UTF-8)",
    ])


def replay_case(rep):
    """re-run a recorded violation (dict with key 'harness_case_line') on the current working tree of REPO:
    the real formatter against the property's oracle (T3).  Returns (still_fails, impl_answer, verdict)."""
    class _C:
        def oblige(self, *a):
            pass
    exe = build_harness(_C())
    if exe is None:
        return True, "harness does not build", ""
    line = rep["harness_case_line"]
    kind, sb, a, b = parse_case(line)
    rc, impl, _ = run_lines([exe], [line])
    if rc != 0 or len(impl) != 1:
        return True, "harness failed", ""
    ip = dict(x.split("=", 1) for x in impl[0].split(" ") if "=" in x)
    chars = set(sb.decode("utf8")) | set("0123456789 |^v.")
    W = width_table(exe, set(vis("".join(chars))) | chars, [sb.decode("utf8")])
    why = t3_verdict(kind, sb, a, b, ip["D"], ip["R"], W)
    return why is not None, decode_answer(impl[0]), why or "meets the statement"


class CountSet:
    def __init__(self):
        self.n = 0

    def add(self, _k):
        self.n += 1

    def __len__(self):
        return self.n
