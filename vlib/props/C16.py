"""C16: generated getters return exactly the referenced sub-nodes that matched."""
import os

from ..coqbuild import check_property_proofs
from ..common import Rng
from ..core import MODEL_FLAGS
from .. import tb, getters, gcorp, dcorp, grammar


def corpus(tier, seed):
    texts = list(getters.BIASED_HAND) + [grammar.HAND[i] for i in (1, 2, 3, 4, 9, 10)]
    rng = Rng(20260928)          # fixed: keeps cargo's cache warm; the run seed drives V1g's grammars and the input sample
    n = 24 if tier == "quick" else 240
    texts += [getters.biased_grammar(rng.fork("b%d" % i)) for i in range(n * 2)]
    ggs = [gcorp.GG("q%d" % i, t, {"emit_rule_reference": True}) for i, t in enumerate(texts)]
    ok = gcorp.prepare(ggs)
    nfixed = len(getters.BIASED_HAND) + 6
    fixed = [g for g in ok if int(g.name[1:]) < nfixed]
    rnd = [g for g in ok if int(g.name[1:]) >= nfixed][:n]
    return fixed + rnd


def split(line):
    """ID|str|HEX|0|0|REST -> (key, rest)"""
    parts = line.rstrip("\n").split("|", 5)
    return (parts[0], parts[2]), parts[5]


def check(ctx):
    ok = check_property_proofs(ctx, "C16")
    if not ok:
        ctx.violation("proof obligation for C16 no longer checks", {"broken": [n for n, o, _ in ctx.obligations if not o]}, found_input=False)
    # ---- V1g: accessor paths and types the real generator emits == Model/Getter.v
    ngr, nget, bad = getters.v1g(ctx, 150 if ctx.tier == "quick" else 1500)
    ctx.oblige("V1g: getter type and path emitted by the real generator == Model/Getter.v getter_of on %d grammars (%d getters)" % (ngr, nget),
               bad == 0 and ngr > 0)
    nr, nb = getters.raw_getters_same(ctx, 100 if ctx.tier == "quick" else 1000)
    ctx.oblige("accessors emitted with pest_optimizer = false == accessors emitted with the optimizer on, for %d rules the optimizer left unchanged" % nr,
               nb == 0 and nr > 0)
    # ---- compiled accessors on parsed trees: T2 (model of the accessor) and T3 (specification)
    ggs = corpus(ctx.tier, ctx.seed)
    by_name = {g.name: g for g in ggs}
    try:
        work, nshard, problems = gcorp.run_corpus("c16_%s" % ctx.tier, ggs, lambda g: dcorp.inputs_for(g, 400 if ctx.tier == "quick" else 1200), MODEL_FLAGS)
    except RuntimeError as e:
        msg = str(e)
        ctx.violation("the getter corpus does not build (generated accessors do not compile, or a tool is broken)",
                      {"log": msg[-3000:]}, found_input=False)
        return ctx.finish(level="proof", trusted_base=tb.BASE)
    for p in problems:
        ctx.violation("getter corpus run problem: " + p, {"problem": p}, found_input=False)
    nt2 = nt3 = nst = 0
    shown = 0
    for k in range(nshard):
        il = open(os.path.join(work, "impl%d.txt" % k), encoding="utf8", errors="replace").read().split("\n")
        ml = open(os.path.join(work, "model%d.txt" % k), encoding="utf8", errors="replace").read().split("\n")
        il = [x for x in il if x]
        ml = [x for x in ml if x]
        if len(il) != len(ml):
            ctx.violation("getter corpus: %d implementation lines vs %d model lines in shard %d" % (len(il), len(ml), k), {"shard": k}, found_input=False)
            continue
        for a, b in zip(il, ml):
            ka, ra = split(a)
            kb, rb = split(b)
            if ka != kb:
                ctx.violation("getter corpus: lines out of step", {"impl": a[:200], "model": b[:200]}, found_input=False)
                break
            ctx.evaluations += 1
            g = by_name[ka[0].split(".")[0]]
            # implementation: FLAT \t#S STRUCT ; model: FLAT \t#D SPECFLAT \t#S STRUCT \t#V SPECSTRUCT
            ra_flat, ra_st = (ra.split("\t#S", 1) + [""])[:2] if ra.startswith("ok@") else (ra, "")
            if "\t#D" in rb:
                got_m, rest = rb.split("\t#D", 1)
                want, rest2 = (rest.split("\t#S", 1) + [""])[:2]
                st_m, st_spec = (rest2.split("\t#V", 1) + [""])[:2]
                spec = got_m.split("\t", 1)[0] + want      # model: "ok@N\tx=..", spec: "\tx=.." -> same prefix
            else:
                got_m, spec, st_m, st_spec = rb, rb, "", ""
            if ra.startswith("ok@"):
                nacc = ra_flat.count("\t")
                ctx.count("accessors_per_rule=%d" % min(nacc, 6))
                if ra_flat.count("=0[]") < nacc:
                    ctx.nontrivial.add((ka[0], ka[1]))
            else:
                ctx.count("verdict=" + ra[:5])
            rule = g.rules[int(ka[0].split(".s")[1])]
            text = bytes.fromhex(ka[1] if ka[1] != "-" else "").decode("utf8", "replace")
            if ra_flat != spec:
                nt3 += 1
                if nt3 <= 3:
                    ctx.violation("accessor value differs from the specification (the directly stored nodes, in mention order): rule %s on %r"
                                  % (rule, text),
                                  {"grammar": g.text, "options": {"emit_rule_reference": True}, "rule": rule, "input_hex": ka[1],
                                   "impl": ra_flat[:1500], "spec (direct_refs / mention_refs on the model tree)": spec[:1500], "model accessor": got_m[:1500]})
            elif ra_st != st_spec:
                nt3 += 1
                nst += 1
                if nst <= 3:
                    ctx.violation("accessor returns the right nodes in the wrong Option / Vec / tuple slots (structured specification spec_val): rule %s on %r"
                                  % (rule, text),
                                  {"grammar": g.text, "options": {"emit_rule_reference": True}, "rule": rule, "input_hex": ka[1],
                                   "impl": ra_st[:1500], "spec (spec_val on the model tree)": st_spec[:1500], "model accessor": st_m[:1500]})
            elif ra_flat != got_m or ra_st != st_m:
                nt2 += 1
                if nt2 <= 3:
                    ctx.violation("accessor value differs from Model/Getter.v eval_g (correspondence)", {"grammar": g.text, "input_hex": ka[1],
                                  "impl": ra[:1500], "model": (got_m + " #S" + st_m)[:1500]}, found_input=False)
            if shown < 5 and ra.startswith("ok@") and "=0[]" not in ra_flat:
                shown += 1
                ctx.samples.append({"grammar": g.text[:200], "input_hex": ka[1], "accessors": ra_flat[:300], "structured": ra_st[:300]})
    ctx.coverage["compiled_grammars"] = len(ggs)
    ctx.coverage["accessor_spec_mismatches"] = nt3
    ctx.coverage["accessor_model_mismatches"] = nt2
    ctx.coverage["accessor_slot_mismatches"] = nst
    ctx.rule = ("V1g: every (rule, identifier) accessor of hand-written getter-biased grammars, the repository grammars and seeded random "
                "grammars: emitted type and path == Model/Getter.v; compiled corpus with #[emit_rule_reference]: every accessor of every "
                "content-carrying rule called on every input of the per-grammar input set, flattened by a type-directed trait and printed "
                "with {:?} (rule, content, spans), compared with the model accessor (T2) and with direct_refs / mention_refs on the model tree "
                "(T3); non-trivial = (rule, input) pairs accepted with at least one accessor returning a node")
    return ctx.finish(level="proof", trusted_base=tb.BASE + ["gen_dump's syn extraction of getter bodies", "type-directed flatten trait of vlib/gcorp.py"])
