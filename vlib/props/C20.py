"""C20: generation options change representation only, and generation is deterministic."""
from ..coqbuild import check_property_proofs
from ..common import Rng, load_known_findings
from .. import tb, gencore, gendump, grammar, dcorp, rtcat
from ..core import MODEL_FLAGS

OPTION_SETS = [
    {"box_only_if_needed": True},
    {"emit_rule_reference": True},
    {"emit_tagged_node_reference": True},
    {"do_not_emit_span": True},
    {"no_warnings": True},
    {"box_only_if_needed": True, "emit_rule_reference": True, "no_warnings": True},
    {"emit_rule_reference": True, "do_not_emit_span": True, "emit_tagged_node_reference": True},
]

RECURSIVE = [
    'a = { "a" ~ b* }\nb = { "b" ~ c? }\nc = { a+ }',
    'e = { t ~ ("+" ~ t)* }\nt = { "n" | "(" ~ e ~ ")" }\nWHITESPACE = _{ " " }',
    'a = { "x" ~ a? }',
    'a = _{ "(" ~ b ~ ")" | "x" }\nb = ${ a ~ a* }',
    'l = { "[" ~ (l ~ ("," ~ l)*)? ~ "]" }',
]


def parsing_relevant(res):
    skip, rules = grammar.typed_from_dump(res)
    return skip, [(n, a, e, t) for (n, a, e, b, t) in rules]


def determinism(ctx, texts, nproc):
    bad = 0
    for i, t in enumerate(texts):
        for opts in ({}, {"emit_rule_reference": True, "box_only_if_needed": True}):
            hashes = gendump.dump_fresh_processes(t, opts, n=nproc)
            ctx.evaluations += len(hashes)
            if len(set(hashes)) != 1 or None in hashes:
                bad += 1
                ctx.violation("the generator emits different code in different processes for the same grammar",
                              {"grammar": t, "options": opts, "token_stream_hashes": hashes})
    ctx.coverage["determinism_grammars"] = len(texts)
    ctx.coverage["determinism_processes_each"] = nproc
    ctx.coverage["determinism_failures"] = bad


def option_invariance(ctx, texts):
    gs = [("d%d" % i, t, {}) for i, t in enumerate(texts)]
    base = gendump.dump(gs)
    bad = 0
    n = 0
    for k, opts in enumerate(OPTION_SETS):
        res = gendump.dump([("o%d" % i, t, dict(opts)) for i, t in enumerate(texts)])
        for i, t in enumerate(texts):
            b, r = base["d%d" % i], res["o%d" % i]
            n += 1
            if b.gen_ok != r.gen_ok:
                bad += 1
                ctx.violation("an option changes whether the grammar is accepted by the generator", {"grammar": t, "options": opts})
                continue
            if not b.gen_ok:
                continue
            if parsing_relevant(b) != parsing_relevant(r):
                bad += 1
                if bad <= 4:
                    ctx.violation("a representation-only option changes the emitted parsing types (%s)" % (opts,),
                                  {"grammar": t, "options": opts, "default": repr(parsing_relevant(b))[:1500],
                                   "with_options": repr(parsing_relevant(r))[:1500]})
            else:
                ctx.nontrivial.add((t, k))
    ctx.evaluations += n
    ctx.coverage["option_invariance_comparisons"] = n
    ctx.coverage["option_invariance_failures"] = bad


def raw_corpus(tier):
    """the corpus compiled with pest_optimizer = false (shared with C11: it compiles, and every parse of it returns)"""
    texts = [t for t in grammar.HAND if "ws_ref" not in t][:14 if tier == "quick" else 26]
    # counted repetitions (single RepMin / RepMinMax nodes on the raw path) whose iterations touch the stack
    texts += ['letter = { \'a\'..\'c\' }\nentry = { PUSH(letter) ~ ":" }\nmain = { entry{1,3} ~ letter ~ POP }\nmost = { entry{,2} ~ letter ~ POP }\n'
              'ex = ${ (PUSH("a") ~ ":"){2} ~ POP ~ POP? }\nmn = ${ (PUSH("a" | "b") ~ ":"){1,} ~ PEEK }\ndr = ${ PUSH("a") ~ PUSH("b") ~ (DROP ~ ":"){,2} ~ PEEK }',
              'COMMENT = { "#" }\nWHITESPACE = { " " }\nit = @{ "x"+ }\nbounded = { it{2,3} }\nexact = { it{2} }\nupto = { it{,2} ~ "." }',
              'WHITESPACE = { " " }\nmain = { (packed | triple) ~ ";"? ~ rest }\ntriple = { num{, 3} }\npacked = @{ ASCII_DIGIT{, 3} ~ &";" }\nrest = { num* }\nnum = @{ ASCII_DIGIT ~ ASCII_DIGIT* }',
              'word = @{ ASCII_ALPHA+ }\nargs = !{ word ~ ("," ~ word)* }\ncall = ${ word ~ "(" ~ args ~ ")" }\nindex = @{ "[" ~ args ~ "]" }\nnormal = { args }\nvia = ${ "<" ~ normal ~ ">" }\nWHITESPACE = _{ " " }',
              'item = { "x" }\nlist = { item{2,3} ~ "." }\nopt2 = { ("x" | "y"){,2} ~ "x"? }\nnest = { (item{1,2} ~ ","){1,2} }',
              # a bounded repetition in CHECK mode (atomic rule) whose body changes the stack and fails at an index >= MIN, then PEEK*:
              # a lost restore leaves an empty entry on top and PEEK* never ends
              'line = @{ PUSH("-" | "*" | "_") ~ (PUSH(" "*) ~ "." ~ DROP){,2} ~ PEEK ~ PEEK ~ PEEK* }\nlinep = ${ PUSH("-" | "*") ~ (PUSH(" "*) ~ "." ~ DROP){1,2} ~ PEEK ~ PEEK* }',
              # bounded counted repetitions whose body can match the empty string (pest only rejects that under *, + and {n,})
              'pad = { " "* }\ntriple = { pad{3} ~ "x" }\nupto = { pad{1,3} ~ "x" }\nopt2 = { ("a"?){2} ~ "b" }\nopt2a = @{ ("a"?){2} ~ "b" }\nmost = ${ ("a"?){,2} ~ &"b" ~ ANY }']
    rng = Rng(777)
    cand = [grammar.rand_grammar(rng.fork("x%d" % i)) for i in range(40 if tier == "quick" else 300)]
    dgs = [dcorp.DG("w%d" % i, t, {"pest_optimizer": False}) for i, t in enumerate(texts + cand)]
    ok = dcorp.prepare(dgs)
    ok = [g for g in ok if int(g.name[1:]) < len(texts)] + gencore.wf_only([g for g in ok if int(g.name[1:]) >= len(texts)])[:10 if tier == "quick" else 80]
    return ok


def raw_path(ctx, tier):
    """pest_optimizer = false compiled and run: faithful raw model (T2) and the PEG spec (T3)"""
    ok = raw_corpus(tier)
    try:
        run = dcorp.run_corpus("raw_%s" % tier, ok, dcorp.inputs_for, MODEL_FLAGS)
    except RuntimeError as e:
        import re
        msg = str(e)
        if "cargo build" not in msg:
            raise
        names = sorted(set(re.findall(r"src/(w\d+)\.rs", msg)))
        by = {g.name: g.text for g in ok}
        for nm in names[:4] or ["?"]:
            ctx.violation("code generated with pest_optimizer = false does not compile (%s)" % nm,
                          {"grammar": by.get(nm, "?"), "options": {"pest_optimizer": False}, "rustc": msg[-2500:]},
                          found_input=nm in by)
        return
    for p in run.problems:
        ctx.violation("runner problem: " + p, {"problem": p}, found_input=False)
    by = {g.name: g for g in ok}
    known = [k for k in load_known_findings() if k.get("status") == "known" and k.get("class") == "optimizer_rewrote_rule"
             and k.get("property") == "C20"]
    pending = []
    n = t2_bad = n_direct = tok_bad = 0
    for a, b, x, aa, pe, gg in dcorp.records_pe(run):
        n += 1
        sid = a[:a.index("|")]
        g = by[sid.split(".")[0]]
        if a != b:
            t2_bad += 1
            fa, fb = rtcat.split_line(a)[5], rtcat.split_line(b)[5]
            tva = fa["P"][:fa["P"].index("=")] if fa["P"].startswith("ok@") else "fail"
            tvb = fb["P"][:fb["P"].index("=")] if fb["P"].startswith("ok@") else "fail"
            gv0 = gg[:gg.index(":")] if gg.startswith("ok@") else gg
            if tvb == gv0 and tva != gv0 and n_direct < 3:
                # the faithful raw model agrees with pest's semantics here, the code does not: switching the optimizer
                # off changes what this rule accepts
                n_direct += 1
                ctx.violation("with pest_optimizer = false rule %s no longer accepts what it accepts with the optimizer on: typed %s, PEG spec / pest %s (and the model no longer matches the code)"
                              % (sid, tva, gv0), {"grammar": g.text, "options": {"pest_optimizer": False}, "input_hex": a.split("|")[2], "impl": a, "model": b, "spec": gg})
            elif t2_bad <= 3:
                ctx.violation("raw-path model/implementation correspondence broken on %s" % sid,
                              {"grammar": g.text, "impl": a, "model": b, "broken": "correspondence translate_raw + Sem.v vs the derive with pest_optimizer = false"},
                              found_input=False)
            continue
        f = rtcat.split_line(a)[5]
        tv = f["P"][:f["P"].index("=")] if f["P"].startswith("ok@") else "fail"
        gv = gg[:gg.index(":")] if gg.startswith("ok@") else gg
        if tv != gv:
            pending.append((g, sid, f["_hex"] if "_hex" in f else a.split("|")[2], tv, gv))
        elif tv.startswith("ok@") and gencore.ws_variant_env(g) is None:
            # the pair tree: same as pest's pruned tree also with the optimizer off (known class WsNonAtomic excluded: C02's business)
            rn_idx = {i + 1 for i, nm in enumerate(g.rules) if g.kinds[nm] in ("atomic", "compound")}
            want = gencore.show_toks(gencore.prune(gencore.parse_toks(gg[gg.index(":") + 1:]), rn_idx))
            if f.get("TK") != want:
                tok_bad += 1
                if tok_bad <= 3:
                    ctx.violation("with pest_optimizer = false the pair tree of %s differs from pest's: typed %s, pest (pruned) %s"
                                  % (sid, str(f.get("TK"))[:160], want[:160]),
                                  {"grammar": g.text, "options": {"pest_optimizer": False}, "input_hex": a.split("|")[2], "impl": a, "spec": gg})
    # classify: does the optimized translation (faithful model) give the spec's answer?
    n_known = 0
    ex = None
    if pending:
        need = {}
        for (g, sid, hx, tv, gv) in pending:
            need[g.name] = g
        og = [dcorp.DG(nm, g.text, {}) for nm, g in need.items()]
        og = dcorp.prepare(og)
        for g2 in og:                      # unicode property tables were sampled from the real crate for the raw build
            g2.env.preds = dict(need[g2.name].env.preds)
            for nm in g2.env.pred_names:
                g2.env.preds.setdefault(nm, [])
        opt_model = gencore.model_only([(g.env, dcorp.inputs_for(g)) for g in og])
        # the optimized translation with WHITESPACE / COMMENT matched atomically (the variant model of the known class WsNonAtomic, F2):
        # where the optimized typed parser itself deviates from pest for THAT reason, the answer of this variant is pest's
        ws_class_known = [k for k in load_known_findings() if k.get("status") == "known" and k.get("class") == "WsNonAtomic"]
        vpairs = [(gencore.ws_variant_env(g2), dcorp.inputs_for(g2)) for g2 in og if gencore.ws_variant_env(g2) is not None]
        opt_variant = gencore.model_only(vpairs) if (vpairs and ws_class_known) else {}
        ws_known = set()
        n_both = 0
        for (g, sid, hx, tv, gv) in pending:
            of = opt_model.get((sid, hx))
            ov = None
            if of is not None:
                ov = of["P"][:of["P"].index("=")] if of["P"].startswith("ok@") else "fail"
            vf = opt_variant.get((sid, hx))
            vv = None
            if vf is not None:
                vv = vf["P"][:vf["P"].index("=")] if vf["P"].startswith("ok@") else "fail"
            if known and ov == gv:
                n_known += 1
                ex = ex or (g.text, sid, hx, tv, gv)
            elif ov == tv:
                ws_known.add(sid)          # same answer with the optimizer on: not an optimizer effect (C01's business)
            elif known and ws_class_known and vv == gv:
                # both known classes at once: the optimized parser is off pest only through WsNonAtomic (its atomic-trivia variant gives
                # pest's answer), and the un-optimized path is off the optimized one as in optimizer_rewrote_rule (raw model exact)
                n_known += 1
                n_both += 1
                ex = ex or (g.text, sid, hx, tv, gv)
            else:
                ctx.violation("switching pest_optimizer changes the consumed offset of %s: optimizer off %s, pest %s" % (sid, tv, gv),
                              {"grammar": g.text, "rule": sid, "input_hex": hx, "optimizer_off": tv, "spec": gv, "optimizer_on_model": ov})
        ctx.coverage["raw_differences_also_present_with_optimizer_on"] = len(ws_known)
        ctx.coverage["raw_differences_in_both_known_classes"] = n_both
    if n_known:
        ctx.known.append("pest_optimizer = false builds the parser from the un-optimized AST, whose repetition nodes treat the "
                         "inter-iteration skip differently from pest's rewritten rules [class optimizer_rewrote_rule: %d explored cases, "
                         "the raw model predicts each output exactly and the optimized translation gives pest's answer; e.g. %s on input %s: "
                         "optimizer off %s, pest %s]" % (n_known, ex[1], ex[2], ex[3], ex[4]))
    ctx.evaluations += n
    ctx.coverage.update({"raw_grammars_compiled": len(ok), "raw_cases": n, "raw_t2_mismatches": t2_bad,
                         "raw_vs_spec_differences": len(pending), "raw_token_tree_differences": tok_bad, "raw_known_class_optimizer_rewrote_rule": n_known})


def skip_rewrite(ctx):
    """the optimizer's skip-until node against the expression it replaces, (!(t1 | t2 ..) ~ ANY)*, as runtime types side by side in
    the catalogue: same verdict and offset on every string AND every Span / Position sub-input (the node exists with pest_optimizer on
    only, so a difference is a difference the option makes)"""
    from .. import core, rtcat
    envs, run = core.core_run(ctx.tier)
    pairs = {e.name: getattr(e, "rewrite_pairs", []) for e in envs if getattr(e, "rewrite_pairs", None)}
    want = {(en, i) for en, ps in pairs.items() for p in ps for i in p}
    got = {}
    for a, b, x, aa in run.records():
        sid = a[:a.index("|")]
        en, sn = sid.split(".")
        k = (en, int(sn[1:]))
        if k not in want:
            continue
        sid_, form, hx, ia, ib, f = rtcat.split_line(a)
        pv = f["P"][:f["P"].index("=")] if f["P"].startswith("ok@") else f["P"][:5]
        cv = f["C"][:f["C"].index(";")] if f["C"].startswith("ok@") else f["C"][:5]
        got.setdefault((en, form, hx, ia, ib), {})[k[1]] = (pv, cv)
    n = bad = 0
    for (en, form, hx, ia, ib), d in got.items():
        for (io, ir) in pairs[en]:
            if io in d and ir in d:
                n += 1
                ctx.evaluations += 1
                if d[io][0].startswith("ok@") and d[io][0] != "ok@%d" % (ia if form != "str" else 0):
                    ctx.nontrivial.add(("skiprw", en, io, form, hx, ia, ib))
                if d[io] != d[ir]:
                    bad += 1
                    if bad <= 3:
                        env = [e for e in envs if e.name == en][0]
                        ctx.violation("pest_optimizer changes what is accepted: the skip-until node gives %s (parse) / %s (check) where the expression it "
                                      "replaces gives %s / %s, on %s %s [%d, %d)" % (d[io][0], d[io][1], d[ir][0], d[ir][1], form, hx, ia, ib),
                                      {"optimized_shape": env.shape_sexps()[io], "unoptimized_shape": env.shape_sexps()[ir], "form": form,
                                       "input_hex": hx, "a": ia, "b": ib, "optimized": d[io], "unoptimized": d[ir]})
    ctx.coverage["skip_rewrite_cases"] = n
    ctx.coverage["skip_rewrite_differences"] = bad
    ctx.oblige("skip-until node == (!(t1 | ..) ~ ANY)* on %d (shape pair, input form) cases incl. Span / Position sub-inputs" % n, bad == 0 and n > 0)


def check(ctx):
    ok = check_property_proofs(ctx, "C20")
    if not ok:
        ctx.violation("proof obligation for C20 no longer checks", {"broken": [n for n, o, _ in ctx.obligations if not o]}, found_input=False)
    gendump.build()
    rng = Rng(ctx.seed).fork("c20")
    quick = ctx.tier == "quick"
    # grammars that make every set / map of the generator hold several entries (unicode properties, wrappers, arities, rules)
    UNI = ['ident = @{ (XID_START | "_") ~ XID_CONTINUE* }',
           'tok = { LETTER | NUMBER | PUNCTUATION | SYMBOL | SEPARATOR | MARK | UPPERCASE_LETTER | LOWERCASE_LETTER | DECIMAL_NUMBER | '
           'MATH_SYMBOL | CURRENCY_SYMBOL | SPACE_SEPARATOR | ALPHABETIC | EMOJI | HAN | LATIN | CYRILLIC | GREEK }\nws = { WHITE_SPACE+ ~ tok* }']
    det_texts = UNI + RECURSIVE + grammar.HAND[:3] + grammar.repo_grammars()[:1]
    determinism(ctx, det_texts if not quick else det_texts[:8], 4 if quick else 10)
    texts = list(grammar.HAND) + RECURSIVE + grammar.repo_grammars()[:2]
    texts += [grammar.rand_grammar(rng.fork("g%d" % i)) for i in range(150 if quick else 1500)]
    option_invariance(ctx, texts)
    # V1 for the raw path as well (translate_raw)
    gencore.v1(ctx, 150 if quick else 1500, which=("opt", "raw"))
    raw_path(ctx, ctx.tier)
    skip_rewrite(ctx)
    # ... and the optimized build of the derive corpus against the same PEG spec (verdict / offset, then pair tree): both
    # sides of the pest_optimizer switch are compared with one reference, hence with each other
    # (T2 of the optimized build + the search for a failing input where it breaks; differences between the typed parser and
    # pest that exist with the optimizer on AND off are C01's / C02's business, not an effect of the option)
    gencore.analyze(ctx, ctx.tier, "offset", do_t3=False)
    gencore.analyze(ctx, ctx.tier, "tokens", do_t3=False)
    try:
        from .. import boxing
        boxing.check_boxing(ctx, ctx.tier)
    except ImportError:
        ctx.coverage["boxing"] = "not wired yet"
    ctx.rule = ("determinism: token stream hash of derive_typed_parser in fresh processes (different environment size, cwd) per grammar x "
                "option set; option invariance: parsing-relevant emitted output (rule kinds, emissions, complete type expressions, skip type) "
                "under each representation-only option set == default, for the fixed corpus, recursive grammars and seeded random grammars; "
                "V1 for both AST paths; pest_optimizer = false: a corpus compiled with the option, faithful raw model (T2) and PEG spec (T3); "
                "boxing: see coverage. non-trivial = (grammar, option set) pairs compared with equal output")
    return ctx.finish(level="proof", trusted_base=tb.BASE + ["pest_meta 2.7.14 parser/optimizer provide both ASTs"])
