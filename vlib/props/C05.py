"""C05: a failed alternative, optional, iteration or lookahead leaves no trace."""
import itertools
import os
import subprocess

from ..coqbuild import check_property_proofs
from ..common import CACHE
from .. import tb, core, rtcat, build


def t3(sid, f, x, a):
    """implementation against the reference interpreter with an immutable stack"""
    got = rtcat.p_core(f["P"])
    if got != a:
        return "parse gives %s but full-backtracking reference gives %s" % (got[:160], (a or "")[:160])
    cw = rtcat.c_vs_ref(f["C"], a)
    if cw:
        return cw
    return None


def nontrivial(sid, f, a):
    # a stack-family case in which the parse got past the two initial pushes (so the context with the
    # mutating attempt was entered), or any case whose final stack is non-empty
    return (sid.startswith("st_") and (f["P"].startswith("ok@") or ";S:[]" not in f["P"])) or ("S:[" in f["P"] and ";S:[]" not in f["P"])


def stack_histories(ctx, bindir, model_exe):
    """T2 for the dependency the property rests on: every operation history of bounded length on the real
    pest::Stack vs Model/Stack.v"""
    n = 6 if ctx.tier == "quick" else 8
    ops = ["p", "o", "s", "r", "c"]
    work = os.path.join(CACHE, "runs", "stackops")
    os.makedirs(work, exist_ok=True)
    path = os.path.join(work, "hist.txt")
    cnt = 0
    with open(path, "w") as f:
        for k in range(1, n + 1):
            for t in itertools.product(ops, repeat=k):
                toks = []
                np = 0
                for o in t:
                    if o == "p":
                        toks.append("p %d %d" % (np, np + 1))
                        np += 1
                    else:
                        toks.append(o)
                f.write("(stack %s)\n" % " ".join(toks))
                cnt += 1
    impl = subprocess.run([os.path.join(bindir, "stackops")], stdin=open(path), capture_output=True, text=True)
    model = subprocess.run([model_exe], stdin=open(path), capture_output=True, text=True)
    il = impl.stdout.split("\n")
    ml = model.stdout.split("\n")
    lines = open(path).read().split("\n")
    bad = 0
    for i, (a, b) in enumerate(zip(il, ml)):
        if a != b:
            bad += 1
            if bad <= 3:
                ctx.violation("pest::Stack model differs from the real Stack on history %s: real %s, model %s" % (lines[i], a, b),
                              {"history": lines[i], "impl": a, "model": b,
                               "broken": "correspondence Model/Stack.v vs pest::Stack"}, found_input=False)
    if len(il) != len(ml):
        ctx.violation("stack history runs differ in length", {"impl": len(il), "model": len(ml)}, found_input=False)
    ctx.evaluations += cnt
    ctx.coverage["stack_histories"] = cnt
    ctx.coverage["stack_history_max_len"] = n
    ctx.count("stack_histories", cnt)


def check(ctx):
    ok = check_property_proofs(ctx, "C05")
    if not ok:
        ctx.violation("proof obligation for C05 no longer checks", {"broken": [n for n, o, _ in ctx.obligations if not o]}, found_input=False)
    envs, run = core.core_run(ctx.tier)
    core.scan(ctx, envs, run, ("stack", "bounds", "slices", "misc"), t3, nontrivial,
              "a failed attempt left a trace")
    bindir = os.path.join(CACHE, "target", "rtcat_core_%s" % ctx.tier, "debug")
    okm, model_exe = build.build_extraction("Sem")
    stack_histories(ctx, bindir, model_exe)
    ctx.rule = ("stack family: PUSH/POP/DROP/POP_ALL inside choice / optional / repetition / predicates nested to depth 2 "
                "(3 in thorough), each followed by a stack read, x all strings over {a,b,x,y,z} up to the bound after the "
                "prefix 'ab'; plus every other catalogue family; plus all pest::Stack op histories up to the length bound. "
                "non-trivial = the mutating context was entered or the final stack is non-empty; distinct = (shape, input)")
    ctx.coverage["exhaustive"] = True
    return ctx.finish(level="proof", trusted_base=tb.BASE + ["pest::Stack 2.7.14 is modelled (Model/Stack.v), tied by exhaustive op-history runs"])
