"""C15 -- traversal helpers enumerate exactly the tokens of the pair tree.

Traversal half (this file + vlib/trees.py + harness/unittree + Model/Traverse.v):
  proofs   Properties/C15.v: C15_preorder, C15_levelorder, C15_render, C15_thin  (for every token tree)
  T2/T3    hand-built `Pair` impls over all rose trees up to N nodes + random bigger ones, driven through
           the real default methods of main/src/iterators.rs, diffed against the extracted model and
           against the property's oracle in Python.
The parser-driven half (trees produced by parsing, span nesting) plugs in at PARSER-DRIVEN PART HOOK."""
from ..common import Rng, log
from ..coqbuild import check_property_proofs
from .. import tb, trees


def unit_cases(ctx):
    quick = ctx.tier != "thorough"
    max_nodes = 7 if quick else 10         # exhaustive by shape (brief: >= 6 quick / >= 8 thorough)
    n_random = 200 if quick else 2000
    rng = Rng(ctx.seed).fork("C15-unit")
    cases = []
    for sh in trees.all_trees(max_nodes):
        cases.append(trees.label_canonical(sh))             # parse-like: leaves own one char each
        cases.append(trees.label_random(sh, rng))           # random nested/ordered spans, random rules
    exhaustive = len(cases)
    for _ in range(n_random):
        cases.append(trees.label_random(trees.random_shape(rng, 40), rng))
    return cases, exhaustive, max_nodes


def check(ctx):
    proofs_ok = check_property_proofs(ctx, "C15")
    if not proofs_ok:
        ctx.violation("proof obligation for C15 no longer checks",
                      {"broken": [n for n, o, _ in ctx.obligations if not o]}, found_input=False)

    cases, exhaustive, max_nodes = unit_cases(ctx)
    log("C15: %d unit-tree cases (%d from all shapes with <= %d nodes)" % (len(cases), exhaustive, max_nodes))
    trees.check_traversals(ctx, cases, tag="unit", crosscheck=16 if ctx.tier != "thorough" else 64)

    # PARSER-DRIVEN PART HOOK: token trees produced by parsing (every non-silent rule x accepted input of
    # the corpus grammars) go through the same comparison, e.g.
    #     parsed = [(input_str, tree), ...]          # tree = (rule_index, start, end, (children...))
    #     trees.check_traversals(ctx, parsed, tag="parsed")
    # (the unit harness knows the rule names trees.RULE_NAMES; parse-produced trees with other rule
    # enums need their own harness binary speaking the same line protocol, see harness/unittree/src/main.rs),
    # plus the span-nesting check trees.well_formed(case) / theorem C15_nesting.

    ctx.rule = ("non-trivial = distinct (input, tree) cases whose tree has >= 3 nodes and depth >= 2 "
                "(a grandchild exists), so that pre-order and level order differ in bookkeeping")
    for c in cases[:3] + cases[exhaustive - 2:exhaustive] + cases[exhaustive:exhaustive + 4]:
        ctx.samples.append({"case": trees.case_line(c), "nodes": trees.tree_size(c[1]), "depth": trees.tree_height(c[1]) - 1})
    ctx.coverage.update({
        "unit_tree_shapes": "all rose-tree shapes with <= %d nodes (%d shapes, 2 labellings each) + %d random trees with <= 40 nodes "
                            "(kinds: random attach, wide, right/left spine, chain, comb, two wide levels)" % (max_nodes, exhaustive // 2, len(cases) - exhaustive),
        "observed": "PairTree::{iterate_pre_order, iterate_level_order, format_as_tree}, Pair::{children, as_token, as_thin_token} of the real crate",
        "parser_driven_part": "not in this file yet (see PARSER-DRIVEN PART HOOK)",
    })
    # children() / tokens of parsed rule structs: the token tree the Pair API exposes for every rule of the misc / uni
    # families (rules of every kind, bounded and unbounded repetitions with non-silent skipped tokens in between) is the
    # model's (Model/Tokens.v); every line of the run carries the thin-token tree
    from .. import core, rtcat
    envs, run = core.core_run(ctx.tier)

    def t3_tokens(sid, f, x, a):
        # same parsed tree on both sides but different tokens: the Pair API does not enumerate the tokens of the tree it was given
        # (the model's Pairs over that very tree, Model/Tokens.v, says which ones it holds)
        mline = f.get("_model")
        if mline:
            mf = rtcat.split_line(mline)[5]
            if mf.get("P") == f.get("P") and f["P"].startswith("ok@") and mf.get("TK") != f.get("TK"):
                return ("children() / tokens of the parsed node are %s, but the tree it holds (%s) has the tokens %s"
                        % (str(f.get("TK"))[:200], f["P"][:120], str(mf.get("TK"))[:200]))
        return None
    core.scan(ctx, envs, run, ("misc", "uni"), t3_tokens, lambda sid, f, a: f.get("TK", "-") not in ("-", ""), "token tree off its spec")
    return ctx.finish(level="proof", trusted_base=tb.BASE + [
        "harness/unittree: hand-written Pair/Pairs/Spanned/RuleWrapper/RuleStruct impls (Node<K>) feeding the real default methods",
        "vlib/trees.py: Python oracle of the traversal property (recursive pre-order, levels, rendering incl. Rust {:?} escaping for the harness alphabet)",
    ])
