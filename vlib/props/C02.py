"""C02: the pair tree equals pest's minus the documented pruning under atomic rules."""
from ..coqbuild import check_property_proofs
from .. import tb, gencore


def check(ctx):
    ok = check_property_proofs(ctx, "C02")
    if not ok:
        ctx.violation("proof obligation for C02 no longer checks", {"broken": [n for n, o, _ in ctx.obligations if not o]}, found_input=False)
    gencore.v1(ctx, 300 if ctx.tier == "quick" else 3000, which=("opt", "raw"))
    gencore.analyze(ctx, ctx.tier, "tokens")
    from .C20 import raw_path
    raw_path(ctx, ctx.tier)          # the same with pest_optimizer = false (un-optimized generator path, counted repetitions as single nodes)
    ctx.known = [k for k in ctx.known if "optimizer_rewrote_rule" not in k]
    ctx.rule = ("V1: real generator output == Model/Translate.v for the fixed corpus + seeded random grammars (no rustc). Derive corpus: "
                "hand-written, kind-nesting and random grammars (all rule kinds, every operator incl. counted repetition, insensitive, "
                "ranges, built-ins, unicode properties, stack operations, WHITESPACE/COMMENT in all combinations) compiled through "
                "pest_typed_derive AND pest_derive; every rule as entry x all strings over the grammar's alphabet up to the length giving "
                "<= 1200 strings; compared: typed try_parse_partial verdict/offset == faithful model (T2) == PEG spec (T3); the spec itself "
                "== real pest on every case where pest returns. non-trivial = accepted with offset > 0; distinct = (rule, input)")
    return ctx.finish(level="proof", trusted_base=tb.BASE + ["pest_meta 2.7.14 parser/optimizer provide the AST (shared by pest and pest-typed)"])
