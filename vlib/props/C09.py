"""C09: parsing is total and keeps every offset on a UTF-8 boundary inside the input (both build profiles)."""
import re

from ..coqbuild import check_property_proofs
from .. import tb, core, rtcat

RE_NUMS = [
    re.compile(r"ok@(\d+)"),
    re.compile(r"start: (\d+), end: (\d+) \}"),
    re.compile(r"T:@(\d+)"),
]
RE_STACK = re.compile(r"S:\[([^\]]*)\]")
RE_TOK = re.compile(r"\(\d+ (\d+) (\d+)")


def offsets_of(line_fields):
    out = []
    for k, v in line_fields.items():
        if k.startswith("_"):
            continue
        if k == "TK":
            for m in RE_TOK.finditer(v):
                out += [int(m.group(1)), int(m.group(2))]
            continue
        for r in RE_NUMS:
            for m in r.finditer(v):
                out += [int(g) for g in m.groups()]
        for m in RE_STACK.finditer(v):
            if m.group(1):
                for x in m.group(1).split(","):
                    lo, hi = x.split("-")
                    out += [int(lo), int(hi)]
    return out


def check(ctx):
    ok = check_property_proofs(ctx, "C09")
    if not ok:
        ctx.violation("proof obligation for C09 no longer checks", {"broken": [n for n, o, _ in ctx.obligations if not o]}, found_input=False)
    envs, run_d = core.core_run(ctx.tier, profile="debug")
    envs_r, run_r = core.core_run(ctx.tier, profile="release")
    fam_of = {e.name: getattr(e, "family", "") for e in envs}
    for p in (run_d.problems + run_r.problems)[:3]:
        # a runner that died (abort / signal) shows up here with its exit status
        ctx.violation("runner problem (abort or signal?): " + p, {"problem": p}, found_input=False)
    n = bad_t2 = bad_rel = bad_off = panics = 0
    pending = {}      # sid -> (priority, why, found, payload); lower priority number = better replay
    rel_ok = not run_r.problems

    def pairs():
        if rel_ok:
            for d, r in zip(run_d.records(), run_r.records()):
                yield d, r
        else:           # a release shard died: its output is truncated, so lines cannot be paired; the debug run still decides
            for d in run_d.records():
                yield d, None
    for (a, b, x, aa), rel in pairs():
        ar, xr = (rel[0], rel[2]) if rel is not None else (a, x)
        n += 1
        sid = a[:a.index("|")]
        sid_, form, hx, ia, ib, f = rtcat.split_line(a)
        why, found, prio = None, True, 9
        s = bytes.fromhex(hx) if hx != "-" else b""
        lo = ia if form != "str" else 0
        hi = ib if form == "span" else len(s)
        for o in offsets_of(f):
            if o < lo or o > hi or (o < len(s) and (s[o] & 0xC0) == 0x80):
                bad_off += 1
                why, prio = "offset %d is outside [%d,%d] or not a char boundary of the input" % (o, lo, hi), 0
                break
        if why is None and ("PANIC" in a or "PANIC" in ar):
            panics += 1
            why, prio = "the implementation panicked: %s" % (a if "PANIC" in a else ar)[:200], 1
        if why is None and (a != ar or x != xr):
            bad_rel += 1
            why, prio = "debug and release builds differ: %s vs %s" % (a[:150], ar[:150]), 2
        if a != b:
            bad_t2 += 1
            if why is None:
                why, found, prio = "model/implementation correspondence broken on %s" % sid, False, 5
        if why:
            prev = pending.get(sid)
            if prev is None or prio < prev[0]:
                if prev is not None or len(pending) < 40:
                    pending[sid] = (prio, why, found, dict(core.describe(envs, sid), form=form, input_hex=hx, a=ia, b=ib,
                                                           impl_debug=a, impl_release=ar, model=b))
        else:
            if any(c >= 0x80 for c in s):
                ctx.nontrivial.add((sid, form, hx, ia, ib))
        ctx.count("family=%s" % fam_of.get(sid.split(".")[0], ""))
        ctx.count("form=%s" % form)
        if n % 99991 == 0 and len(ctx.samples) < 6:
            ctx.samples.append({"case": a[:300]})
    nfound = sum(1 for v in pending.values() if v[2])
    k = 0
    for sid, (prio, why, found, rep) in sorted(pending.items(), key=lambda kv: (kv[1][0], kv[0])):
        if k >= 6 or (not found and nfound and k >= nfound + 1):
            break
        k += 1
        ctx.violation(why, rep, found_input=found)
    ctx.evaluations += 2 * n
    ctx.coverage.update({"cases_per_profile": n, "panics": panics, "debug_release_differences": bad_rel, "t2_mismatches": bad_t2,
                         "offsets_off_boundary_or_out_of_range": bad_off, "traces_validated_against_impl": n - bad_t2,
                         "exhaustive": True})
    ctx.rule = ("every catalogue shape x all strings of its family (uni / misc families: alphabets mixing 1-, 2-, 3-, 4-byte characters, "
                "CR, LF) x all three input forms, in a debug build (checked slicing, debug assertions) and a release build (unchecked "
                "slicing); every call under catch_unwind, runner exit status observed; every offset in every result field re-checked "
                "against the input; debug output == release output == model. non-trivial = input contains a multi-byte character")
    ctx.assumptions.append("runtime part is partial by nature: memory safety of the release build outside the explored inputs rests on the model being faithful (the theorem proves the no-panic / boundary precondition on the model)")
    return ctx.finish(level="proof", trusted_base=tb.BASE)
