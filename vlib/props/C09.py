"""C09: parsing is total and keeps every offset on a UTF-8 boundary inside the input (both build profiles)."""
import re

from ..coqbuild import check_property_proofs
from .. import tb, core, rtcat

RE_NUMS = [
    re.compile(r"ok@(\d+)"),
    re.compile(r"start: (\d+), end: (\d+) \}"),
    re.compile(r"T:@(\d+)"),
]
RE_STACK = re.compile(r"S:\[([^\]]*)\]")
RE_TOK = re.compile(r"\(\d+ (\d+) (\d+)")


def offsets_of(line_fields):
    out = []
    for k, v in line_fields.items():
        if k.startswith("_"):
            continue
        if k == "TK":
            for m in RE_TOK.finditer(v):
                out += [int(m.group(1)), int(m.group(2))]
            continue
        for r in RE_NUMS:
            for m in r.finditer(v):
                out += [int(g) for g in m.groups()]
        for m in RE_STACK.finditer(v):
            if m.group(1):
                for x in m.group(1).split(","):
                    lo, hi = x.split("-")
                    out += [int(lo), int(hi)]
    return out


def check(ctx):
    ok = check_property_proofs(ctx, "C09")
    if not ok:
        ctx.violation("proof obligation for C09 no longer checks", {"broken": [n for n, o, _ in ctx.obligations if not o]}, found_input=False)
    envs, run_d = core.core_run(ctx.tier, profile="debug")
    envs_r, run_r = core.core_run(ctx.tier, profile="release")
    fam_of = {e.name: getattr(e, "family", "") for e in envs}
    for p in run_d.problems + run_r.problems:
        # a runner that died (abort / signal) shows up here with its exit status
        ctx.violation("runner problem (abort or signal?): " + p, {"problem": p}, found_input=False)
    n = bad_t2 = bad_rel = bad_off = panics = 0
    reported = set()
    for (a, b, x, aa), (ar, br, xr, aar) in zip(run_d.records(), run_r.records()):
        n += 1
        sid = a[:a.index("|")]
        why = None
        found = True
        if "PANIC" in a or "PANIC" in ar:
            panics += 1
            why = "the implementation panicked: %s" % (a if "PANIC" in a else ar)[:200]
        elif a != ar or x != xr:
            bad_rel += 1
            why = "debug and release builds differ: %s vs %s" % (a[:150], ar[:150])
        elif a != b:
            bad_t2 += 1
            why = "model/implementation correspondence broken on %s" % sid
            found = False
        sid_, form, hx, ia, ib, f = rtcat.split_line(a)
        if why is None:
            s = bytes.fromhex(hx) if hx != "-" else b""
            lo = ia if form != "str" else 0
            hi = ib if form == "span" else len(s)
            for o in offsets_of(f):
                if o < lo or o > hi or (o < len(s) and (s[o] & 0xC0) == 0x80):
                    bad_off += 1
                    why = "offset %d is outside [%d,%d] or not a char boundary of the input" % (o, lo, hi)
                    break
        if why:
            if sid not in reported and len(reported) < 6:
                reported.add(sid)
                ctx.violation(why, dict(core.describe(envs, sid), form=form, input_hex=hx, a=ia, b=ib, impl_debug=a, impl_release=ar, model=b),
                              found_input=found)
        else:
            if any(c >= 0x80 for c in (bytes.fromhex(hx) if hx != "-" else b"")):
                ctx.nontrivial.add((sid, form, hx, ia, ib))
        ctx.count("family=%s" % fam_of.get(sid.split(".")[0], ""))
        ctx.count("form=%s" % form)
        if n % 99991 == 0 and len(ctx.samples) < 6:
            ctx.samples.append({"case": a[:300]})
    ctx.evaluations += 2 * n
    ctx.coverage.update({"cases_per_profile": n, "panics": panics, "debug_release_differences": bad_rel, "t2_mismatches": bad_t2,
                         "offsets_off_boundary_or_out_of_range": bad_off, "traces_validated_against_impl": n - bad_t2,
                         "exhaustive": True})
    ctx.rule = ("every catalogue shape x all strings of its family (uni / misc families: alphabets mixing 1-, 2-, 3-, 4-byte characters, "
                "CR, LF) x all three input forms, in a debug build (checked slicing, debug assertions) and a release build (unchecked "
                "slicing); every call under catch_unwind, runner exit status observed; every offset in every result field re-checked "
                "against the input; debug output == release output == model. non-trivial = input contains a multi-byte character")
    ctx.assumptions.append("runtime part is partial by nature: memory safety of the release build outside the explored inputs rests on the model being faithful (the theorem proves the no-panic / boundary precondition on the model)")
    return ctx.finish(level="proof", trusted_base=tb.BASE)
