"""C10: error reports are in bounds, not before consumed input, and truthful."""
import re

from ..coqbuild import check_property_proofs
from .. import tb, core, rtcat

RE_T = re.compile(r"T:@(\d+)\{([^}]*)\}")


def check(ctx):
    ok = check_property_proofs(ctx, "C10")
    if not ok:
        ctx.violation("proof obligation for C10 no longer checks", {"broken": [n for n, o, _ in ctx.obligations if not o]}, found_input=False)
    envs, run_d = core.core_run(ctx.tier, profile="debug")
    envs_r, run_r = core.core_run(ctx.tier, profile="release")   # a second, separate process: same reports?
    fam_of = {e.name: getattr(e, "family", "") for e in envs}
    for p in run_d.problems + run_r.problems:
        ctx.violation("runner problem: " + p, {"problem": p}, found_input=False)
    n = t2_bad = t3_bad = rejected = 0
    reported = set()
    pending = {}
    for (a, b, x, aa, eh), (ar, br, xr, aar, ehr) in zip(run_d.records(True), run_r.records(True)):
        sid = a[:a.index("|")]
        if x is None:
            continue      # raw node shapes have no error report
        n += 1
        sid_, form, hx, ia, ib, f = rtcat.split_line(a)
        why = None
        found = True
        if a != b:
            t2_bad += 1
            why = "model/implementation correspondence (tracker) broken on %s" % sid
            found = False
        if f["FP"].startswith("fail"):
            rejected += 1
            s = bytes.fromhex(hx) if hx != "-" else b""
            lo = ia if form != "str" else 0
            hi = ib if form == "span" else len(s)
            m = RE_T.search(f["FP"])
            pos = int(m.group(1))
            if pos < lo or pos > hi or (pos < len(s) and (s[pos] & 0xC0) == 0x80):
                why, found = "reported location %d is outside [%d,%d] or off a character boundary" % (pos, lo, hi), True
            elif f["P"].startswith("ok@") and pos < int(f["P"][3:f["P"].index("=")]):
                why, found = "reported location %d lies before the end %s of the prefix the rule matched" % (pos, f["P"][3:f["P"].index("=")]), True
            elif x != "ok":
                why, found = "report check on the real code: %s" % x[:300], True
            elif eh != ehr:
                why, found = "a second process renders a different error report for the same input", True
            else:
                if m.group(2):          # the report lists at least one rule or special error
                    ctx.nontrivial.add((sid, form, hx, ia, ib))
                else:
                    ctx.count("rejected_without_any_listed_rule")
        elif x != "ok":
            why, found = "entry points disagree: %s" % x[:300], True
        if why:
            t3_bad += 0 if not found else 1
            # one report per shape, preferring a case that violates the property itself (a failing input) over the bare
            # correspondence break
            prev = pending.get(sid)
            if prev is None or (found and not prev[1]):
                if prev is not None or len(pending) < 24:
                    pending[sid] = (why, found, dict(core.describe(envs, sid), form=form, input_hex=hx, a=ia, b=ib, impl=a, model=b))
        ctx.count("family=%s" % fam_of.get(sid.split(".")[0], ""))
        ctx.count("verdict=%s" % ("rejected" if f["FP"].startswith("fail") else "accepted"))
        if rejected % 4999 == 1 and len(ctx.samples) < 6 and f["FP"].startswith("fail"):
            ctx.samples.append({"case": a[:300]})
    nf = sum(1 for v in pending.values() if v[1])
    k = 0
    for sid, (why, found, rep) in sorted(pending.items(), key=lambda kv: (not kv[1][1], kv[0])):
        if k >= 6 or (not found and nf and k >= nf + 2):
            break
        k += 1
        ctx.violation(why, rep, found_input=found)
    ctx.evaluations += n
    ctx.coverage.update({"t2_mismatches": t2_bad, "t3_failures": t3_bad, "rejected_inputs": rejected,
                         "traces_validated_against_impl": n - t2_bad, "exhaustive": True})
    ctx.rule = ("rule structs (misc and uni families: predicates incl. nested and double negation, rules under predicates, atomic, "
                "silent, compound, non-atomic, recursive) x all strings of the family x three input forms; for every rejected input: "
                "Tracker::finish() of the real code vs the model's fold over the event trace (T2); location in range, on a boundary, "
                "not before the matched prefix; rendering under catch_unwind, twice in-process and once in a second process; semantic "
                "audit on the real code (every expected rule re-run at the reported location must fail, every unexpected one match); "
                "non-trivial = rejected input whose report lists at least one rule or special error; distinct = (rule, input, form)")
    return ctx.finish(level="proof", trusted_base=tb.BASE)
