"""C03: check-only entry points give the same verdict, offset and error as parsing."""
from ..coqbuild import check_property_proofs
from .. import tb, core, rtcat


def t3(sid, f, x, a):
    """implementation against itself: parse path vs check path"""
    p, c = f["P"], f["C"]
    if p.startswith("ok@"):
        # ok@OFF=TREE;S:..;T:..   vs  ok@OFF;S:..;T:..
        off = p[3:p.index("=")]
        rest = p[p.rfind(";S:"):]
        if c != "ok@%s%s" % (off, rest):
            return "partial parse %s... but partial check %s" % (p[:40], c[:80])
    elif p != c:
        return "partial parse %s but partial check %s" % (p[:80], c[:80])
    if "FP" in f:
        fp, fc = f["FP"], f["FC"]
        if fp.startswith("ok="):
            if fc != "ok" + fp[fp.rfind(";T:"):]:
                return "full parse ok but full check %s" % fc[:80]
        elif fp != fc:
            return "full parse %s but full check %s" % (fp[:80], fc[:80])
    if x is not None and x != "ok":
        return "entry points disagree: %s" % x[:200]
    return None


def nontrivial(sid, f, a):
    # the attempt consumed something or recorded something: not an immediate trivial failure
    return f["P"].startswith("ok@") and not f["P"].startswith("ok@0=") or ";T:@0{}" not in f["P"]


def check(ctx):
    ok = check_property_proofs(ctx, "C03")
    if not ok:
        ctx.violation("proof obligation for C03 no longer checks", {"broken": [n for n, o, _ in ctx.obligations if not o]}, found_input=False)
    envs, run = core.core_run(ctx.tier)
    core.scan(ctx, envs, run, None, t3, nontrivial, "check path differs from parse path")
    ctx.rule = ("every shape of the core catalogue (all combinators x skip on/off x operand kinds, rule structs of the five kinds) "
                "x all strings up to the family's length bound; non-trivial = the run consumed input or recorded an attempt; "
                "distinct = (shape, input)")
    ctx.coverage["exhaustive"] = True
    return ctx.finish(level="proof", trusted_base=tb.BASE)
