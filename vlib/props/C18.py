"""C18: parse results are deterministic values, stable under clone, eq and hash.

Proof part  : Properties/C18.v (eq_m <-> equal debug_m, eq_m -> equal hash_m, equivalence relation) over
              Model/EqHash.v, for all pairs of tnodes over one input object.
Tie (T2)    : the runtime crate's `==`, `Hash` (every call it makes on the hasher) and `{:?}` against
              eq_m / hash_m / debug_m on every pair of results of one shape over one `String` object
              (whole &str, every Position, every Span; try_parse and try_parse_partial).
Property on the code alone (T3): `==` iff same `{:?}`; `==` => same hash (SipHash-1-3 and a recording hasher);
              reflexive, symmetric; clone and second parse equal in all three respects.
History     : the same case list in three orders (one process each, foreign cases interleaved) and a sample in a
              fresh process per case must print the same lines (statelessness is NOT a theorem: a Gallina function
              has no state)."""
import os
import subprocess
import time
from concurrent.futures import ThreadPoolExecutor

from ..common import CACHE, COQ, NCPU, Rng, log, run
from ..coqbuild import check_property_proofs
from .. import tb, build, eqhash

MAX_REPORT = 4


def _spawn(exe, inp_path, out_path):
    return subprocess.Popen([exe], stdin=open(inp_path, "rb"), stdout=open(out_path, "wb"), stderr=subprocess.PIPE)


def _key(line):
    i = line.find("|")
    j = line.find("|", i + 1)
    return line[:j]


def check(ctx):
    from .. import skipn
    ok = check_property_proofs(ctx, "C18")
    if not ok:
        ctx.violation("proof obligation for C18 no longer checks",
                      {"broken": [n for n, o, _ in ctx.obligations if not o]}, found_input=False)
    tier = ctx.tier
    # raw combinators with explicit skip counts / containers whose direct elements are sequences (outside the field-by-field model:
    # decided by the property itself, == iff same {:?}, on values that hold no span)
    skipn.check_eq(ctx, 6 if tier == "quick" else 8)
    envs = eqhash.environments(tier)
    bindir = eqhash.build_crate(tier, envs)
    eqhash.fill_preds(bindir, envs)
    okx, model_exe = build.build_extraction("EqHash")
    if not okx:
        raise RuntimeError(model_exe)
    work = os.path.join(CACHE, "runs", eqhash.target_sub(tier))
    os.makedirs(work, exist_ok=True)
    rng = Rng(ctx.seed).fork("C18")

    # ---------------- case lists and the four runs per environment (A canonical, B reversed, C shuffled + foreign
    # cases, M model), all in parallel
    cases_of = {}
    procs = []
    for env in envs:
        strs = eqhash.strings_of(env)
        cases = [(k, s) for s in strs for k in range(len(env.shapes))]     # neighbours = other rules on the same input
        cases_of[env.name] = cases
        exe = os.path.join(bindir, "eq_%s" % env.name)
        pa = os.path.join(work, "%s.A.in" % env.name)
        with open(pa, "w") as f:
            f.write(eqhash.case_lines(env, cases))
        pb = os.path.join(work, "%s.B.in" % env.name)
        with open(pb, "w") as f:
            f.write(eqhash.case_lines(env, cases[::-1]))
        # C: seeded shuffle; after every few cases a foreign parse (another shape on a string outside the case list,
        # its output is dropped) so that what precedes a case differs from A and B in rule, input and length
        r = rng.fork(env.name)
        perm = list(cases)
        for i in range(len(perm) - 1, 0, -1):
            j = r.below(i + 1)
            perm[i], perm[j] = perm[j], perm[i]
        foreign = [a + b + a for a in env.alpha for b in env.alpha] + [b"".join(env.alpha), b"".join(env.alpha[::-1]) * 2]
        pc = os.path.join(work, "%s.C.in" % env.name)
        with open(pc, "w") as f:
            for n, (k, s) in enumerate(perm):
                if n % 3 == 0:
                    f.write("(noise %s %d %s)\n" % (env.name, r.below(len(env.shapes)), eqhash.hexs(r.choice(foreign))))
                f.write("(case %s %d %s)\n" % (env.name, k, eqhash.hexs(s)))
        pm = os.path.join(work, "%s.M.in" % env.name)
        with open(pm, "w") as f:
            f.write(eqhash.model_job(env, cases))
        for tag, e, p in (("A", exe, pa), ("B", exe, pb), ("C", exe, pc), ("M", model_exe, pm)):
            procs.append((env, tag, _spawn(e, p, os.path.join(work, "%s.%s.out" % (env.name, tag)))))
    problems = []
    deadline = time.time() + (1500 if tier == "quick" else 3000)
    for env, tag, p in procs:
        try:
            err = p.communicate(timeout=max(5, deadline - time.time()))[1]
        except subprocess.TimeoutExpired:
            p.kill()
            err = p.communicate()[1] + b" TIMEOUT (killed)"
        if p.returncode != 0:
            problems.append("%s run %s exited with %s: %s" % (env.name, tag, p.returncode, err.decode("utf8", "replace")[-400:]))
    for pr in problems:
        ctx.violation("harness problem: " + pr, {"problem": pr}, found_input=False)

    # ---------------- T2 + T3 on the canonical run, history on B and C
    reported = set()
    n_cases = 0
    n_pairs = 0
    t2_bad = t3_bad = hist_bad = 0
    sample_pool = []
    a_line_of = {}

    def report(env, case, what, found=True, kind="T3"):
        # at most one replay per (shape, kind of failure) and MAX_REPORT per kind
        sid = env.shape_id(case[0])
        if (kind, sid) in reported or sum(1 for x in reported if x[0] == kind) >= MAX_REPORT:
            return
        reported.add((kind, sid))
        il, ml = eqhash.verbose_rerun(bindir, model_exe, env, case)
        ctx.violation(what, eqhash.describe(env, case, il, ml), found_input=found)

    for env in envs:
        cases = cases_of[env.name]

        def lines(tag):
            with open(os.path.join(work, "%s.%s.out" % (env.name, tag)), encoding="utf8", errors="replace") as f:
                return f.read().split("\n")[:-1]
        la, lm = lines("A"), lines("M")
        if len(la) != len(cases) or len(lm) != len(cases):
            ctx.violation("harness problem: %s printed %d implementation / %d model lines for %d cases" % (env.name, len(la), len(lm), len(cases)),
                          {"env": env.name}, found_input=False)
            continue
        for case, a, b in zip(cases, la, lm):
            n_cases += 1
            core_a, _x = eqhash.strip_x(a)
            why, m, st = eqhash.judge(a)
            n_pairs += m * m
            if why:
                t3_bad += 1
                extra = "" if core_a == b else " (and the implementation no longer matches the model)"
                report(env, case, "values of one type over one input object: %s%s" % (why, extra))
            elif core_a != b:
                t2_bad += 1
                _s, _h, fa = eqhash.split_line(core_a)
                _s, _h, fb = eqhash.split_line(b)
                diff = [k for k in ("L", "PN", "D", "H", "E", "HS", "HR", "DE") if fa.get(k) != fb.get(k)]
                names = {"L": "the set of accepted sub-inputs", "PN": "panics", "D": "a {:?} rendering (vs debug_m)",
                         "H": "the calls made on the hasher (vs hash_m: every field, in order)", "E": "the == matrix (vs eq_m)",
                         "HS": "SipHash equality (vs hash_m equality)", "HR": "equality of the hasher calls (vs hash_m equality)",
                         "DE": "{:?} equality (vs debug_m equality)"}
                report(env, case, "parse results deviate from the field-by-field model of ==/Hash/Debug in: %s"
                       % "; ".join(names[k] for k in diff), kind="T2")
            else:
                if st["eq_pairs_diff_sub"] > 0 and st["ne_pairs"] > 0:
                    ctx.nontrivial.add((env.name, case[0], case[1]))
                ctx.count("values=%s" % (m if m < 8 else "8-15" if m < 16 else "16+"))
            if m >= 2 and len(sample_pool) < 300000:
                sample_pool.append((env, case, a))
            ctx.count("env=%s" % env.name)
            ctx.count("len=%d" % len(case[1]))
        if len(ctx.samples) < 8:
            for a in la[len(la) // 3:]:
                if "|E:" in a and a.count(",") > 6 and len(a) < 900:
                    ctx.samples.append({"case": a})
                    break
        # history: the other orders print exactly the same line for every case
        sa = sorted(la)
        for tag in ("B", "C"):
            lo = lines(tag)
            if sorted(lo) != sa:
                hist_bad += 1
                da = {_key(x): x for x in la}
                bad = [x for x in lo if da.get(_key(x)) != x]
                idx = {(env.shape_id(k), eqhash.hexs(s)): (k, s) for (k, s) in cases}
                if bad:
                    sid, hx = bad[0].split("|")[:2]
                    case = idx.get((sid, hx))
                    if case:
                        rep = eqhash.describe(env, case, None, None)
                        rep.update({"order": {"B": "reversed", "C": "shuffled with foreign cases"}[tag], "line_in_this_order": bad[0][:3000],
                                    "line_in_canonical_order": da.get(_key(bad[0]), "")[:3000], "n_differing_cases": len(bad),
                                    "input_file": os.path.relpath(os.path.join(work, "%s.%s.in" % (env.name, tag)), CACHE)})
                        if ("hist", env.name) not in reported:
                            reported.add(("hist", env.name))
                            ctx.violation("a parse result depends on what was parsed before: %d cases of %s print a different line "
                                          "in the %s order" % (len(bad), env.name, rep["order"]), rep)
                else:
                    ctx.violation("harness problem: %s order %s printed %d lines for %d cases" % (env.name, tag, len(lo), len(la)),
                                  {"env": env.name}, found_input=False)

    # ---------------- history, part 2: a sample of cases, each in a fresh process
    r = rng.fork("fresh")
    want = 96 if tier == "quick" else 400
    picks = []
    if sample_pool:
        for _ in range(want):
            picks.append(sample_pool[r.below(len(sample_pool))])

    def fresh(item):
        env, case, a = item
        rc, so, se = eqhash.run_impl(bindir, env, eqhash.case_lines(env, [case]), timeout=120)
        return item, so.rstrip("\n")
    fresh_bad = 0
    with ThreadPoolExecutor(NCPU) as ex:
        for (env, case, a), got in ex.map(fresh, picks):
            if got != a:
                fresh_bad += 1
                if ("fresh", env.name) not in reported:
                    reported.add(("fresh", env.name))
                    rep = eqhash.describe(env, case, None, None)
                    rep.update({"line_in_fresh_process": got[:3000], "line_in_canonical_order": a[:3000]})
                    ctx.violation("a parse result depends on what was parsed before: the case prints a different line in a fresh process", rep)

    # ---------------- cross-check of the extraction: the Coq kernel evaluates eq_m / hash_m / debug_m on sampled pairs
    nx = 0
    if sample_pool:
        by_env = {}
        for _ in range(10 if tier == "quick" else 24):
            env, case, _a = sample_pool[r.below(len(sample_pool))]
            by_env.setdefault(env.name, (env, []))[1].append(case)
        v = ["From Coq Require Import List NArith ZArith.", "From PT Require Import Model.Base Model.Texpr Model.EqHash.",
             "Import ListNotations."]
        for name, (env, cs) in sorted(by_env.items()):
            job = "\n".join([env.env_sexp(eqhash.core.MODEL_FLAGS), "(clear)"] + env.shape_sexps() +
                            ["(coqx %d %s 3)" % (k, eqhash.hexs(s)) for (k, s) in cs]) + "\n"
            p = subprocess.run([model_exe], input=job.encode(), capture_output=True, timeout=600)
            ex_lines = [x for x in p.stdout.decode("utf8").split("\n") if x.startswith("Example ")]
            # examples of different environments are numbered independently by the driver
            v += [x.replace("Example x", "Example %s_x" % name, 1) for x in ex_lines]
            nx += len(ex_lines)
        d = os.path.join(CACHE, "coqx")
        os.makedirs(d, exist_ok=True)
        src = os.path.join(d, "EqHashX.v")
        with open(src, "w") as f:
            f.write("\n".join(v) + "\n")
        rc, so, se = run(["timeout", "600", "coqc", "-Q", os.path.join(COQ, "theories"), "PT", "-w", "-notation-overridden",
                          "-o", os.path.join(d, "EqHashX.vo"), src], cwd=d, timeout=630)
        ctx.oblige("extraction cross-check: %d sampled pairs, vm_compute in coqc == extracted OCaml (eq_m, hash_m, debug_m)" % nx,
                   rc == 0 and nx > 0, (so + se)[-1500:])
        if rc != 0 or nx == 0:
            ctx.violation("extracted C18 model disagrees with vm_compute", {"detail": (so + se)[-1500:]}, found_input=False)

    # the run files are large (thorough: > 1 GB): keep them only when something has to be looked at
    if not ctx.violations:
        for f in os.listdir(work):
            os.remove(os.path.join(work, f))

    ctx.evaluations += n_cases
    ctx.coverage.update({
        "cases": n_cases, "pairs_compared": n_pairs, "t2_mismatches": t2_bad, "t3_failures": t3_bad,
        "orders_run": 3, "order_mismatches": hist_bad, "fresh_process_cases": len(picks), "fresh_process_mismatches": fresh_bad,
        "traces_validated_against_impl": n_cases - t2_bad, "exhaustive": True,
        "environments": {e.name: {"shapes": len(e.shapes), "strings": len(eqhash.strings_of(e))} for e in envs},
    })
    ctx.rule = ("case = (shape, input String object): the shape is parsed on the whole &str, every Position and every Span of that object "
                "(rule structs: try_parse and try_parse_partial; raw nodes: try_parse_partial_with) and ALL pairs of Ok values are "
                "compared (==, SipHash-1-3, recorded hasher calls, {:?}), plus self / clone / second parse per value; shapes = misc "
                "family (13 rule structs with skip ws|comment, 20 leaf shapes) + 30 raw shapes (Seq2-5 of optionals, Skipped with skip, "
                "choices, repetitions, Insens, PUSH/PEEK/POP spans, arrays, pairs) + 9 rule structs reading the entry point's stack + every SeqN/ChoiceN (N = 2..12) on strings whose windows differ in exactly one element; "
                "strings exhaustive up to the environment's length bound; non-trivial = the case holds both a pair of results of "
                "DIFFERENT sub-inputs that compare equal and a pair that compares unequal; distinct = (shape, string)")
    return ctx.finish(level="proof", trusted_base=tb.BASE + [
        "harness/rtcat_static/rt_eq.rs (recording hasher: the address of the input object is replaced by a symbol) and "
        "ocaml/EqHash_drv.ml (token -> text table of debug_m, word -> text table of hash_m, fnv64 digests)",
        "statelessness/determinism of the entry points is tested (orders, fresh processes, second parse), not proved"])
