"""Typed-node expressions (the model's `texpr`) on the Python side: constructors, S-expression
printer (for ocaml/Sem_drv), Rust type printer (for the generated rtcat crate)."""

# expressions are tuples:
# ('str', bytes) ('insens', bytes) ('range', lo, hi) 'any' 'soi' 'eoi' 'newline' ('charby', NAME)
# ('skipuntil', [bytes..]) ('skipchars', n) ('seq', k, [e..]) ('choice', [e..]) ('opt', e)
# ('rep', k, mn, mx|None, e) ('atomicrep', e) ('pos', e) ('neg', e) ('push', e)
# 'peek' 'pop' 'drop' 'peekall' 'popall' ('slice', a, b|None) ('arr', n, e) ('pair', a, b) 'empty' 'fail'
# ('rule', NAME, k)            k in 'off' | 'on' | 'inh'


def S(x):
    return ('str', x.encode() if isinstance(x, str) else x)


def I(x):
    return ('insens', x.encode() if isinstance(x, str) else x)


def R(lo, hi):
    return ('range', ord(lo), ord(hi))


def seq(k, *es):
    return ('seq', k, list(es))


def choice(*es):
    return ('choice', list(es))


def opt(e):
    return ('opt', e)


def rep(k, mn, mx, e):
    return ('rep', k, mn, mx, e)


def star(k, e):
    return ('rep', k, 0, None, e)


def plus(k, e):
    return ('rep', k, 1, None, e)


def pos(e):
    return ('pos', e)


def neg(e):
    return ('neg', e)


def push(e):
    return ('push', e)


def rule(name, k='inh'):
    return ('rule', name, k)


def hexs(b):
    return b.hex() if b else '-'


class Env:
    """one grammar-like environment: skip definition, rule definitions, shapes to run"""

    def __init__(self, name, skip=None, rules=None, shapes=None, preds=None):
        self.name = name
        self.skip = skip            # None (Empty) or a texpr (element of AtomicRepeat)
        self.rules = rules or []    # (name, atom 'true'|'false'|'inh', emis 'span'|'expr'|'both', body, boxed)
        self.shapes = shapes or []  # ('node', inh_bool, texpr) | ('rule', name)
        self.preds = preds or {}    # NAME -> list of code points (of the run's alphabet) for which it holds
        self._idx = None

    def rule_index(self, name):
        if name == 'EOI':
            return 0
        for i, r in enumerate(self.rules):
            if r[0] == name:
                return i + 1
        raise KeyError(name)

    def pred_index(self, name):
        return sorted(self.preds).index(name)

    # ---- S-expressions for the model driver
    def sexp(self, e):
        if isinstance(e, str):
            return e
        t = e[0]
        if t == 'str' or t == 'insens':
            return '(%s %s)' % (t, hexs(e[1]))
        if t == 'range':
            return '(range %d %d)' % (e[1], e[2])
        if t == 'charby':
            return '(charby %d)' % self.pred_index(e[1])
        if t == 'skipuntil':
            return '(skipuntil (%s))' % ' '.join(hexs(b) for b in e[1])
        if t == 'skipchars':
            return '(skipchars %d)' % e[1]
        if t == 'seq':
            return '(seq %s %s)' % (e[1], ' '.join(self.sexp(x) for x in e[2]))
        if t == 'choice':
            return '(choice %s)' % ' '.join(self.sexp(x) for x in e[1])
        if t in ('opt', 'atomicrep', 'pos', 'neg', 'push'):
            return '(%s %s)' % (t, self.sexp(e[1]))
        if t == 'rep':
            return '(rep %s %d %s %s)' % (e[1], e[2], 'none' if e[3] is None else e[3], self.sexp(e[4]))
        if t == 'slice':
            return '(slice %d %s)' % (e[1], 'none' if e[2] is None else e[2])
        if t == 'arr':
            return '(arr %d %s)' % (e[1], self.sexp(e[2]))
        if t == 'pair':
            return '(pair %s %s)' % (self.sexp(e[1]), self.sexp(e[2]))
        if t == 'rule':
            return '(rule %d %s)' % (self.rule_index(e[1]), e[2])
        raise ValueError(e)

    def env_sexp(self, flags=(1, 1, 1)):
        rules = ['(0 EOI inh both eoi)']
        for i, (name, atom, emis, body, boxed) in enumerate(self.rules):
            shown = ('r#' + name) if getattr(self, 'raw_names', False) else name
            rules.append('(%d %s %s %s %s)' % (i + 1, shown, atom, emis, self.sexp(body)))
        preds = ['(%d %s %s)' % (i, n, ' '.join(str(c) for c in self.preds[n])) for i, n in enumerate(sorted(self.preds))]
        extra = ''
        if getattr(self, 'ast_sexp', None):
            extra = ' ' + self.ast_sexp
            un = getattr(self, 'unicode_index', {})
            extra += ' (upreds %s)' % ' '.join('(%d %s)' % (un[n], ' '.join(str(c) for c in self.preds[n]))
                                                for n in sorted(self.preds) if n in un)
        return '(env (skip %s) (flags %d %d %d) (eoi 0) (rules %s) (preds %s)%s)' % (
            'empty' if self.skip is None else '(rep %s)' % self.sexp(self.skip),
            flags[0], flags[1], flags[2], ' '.join(rules), ' '.join(preds), extra)

    def shape_id(self, i):
        return '%s.s%d' % (self.name, i)

    def shape_sexps(self):
        out = []
        for i, sh in enumerate(self.shapes):
            if sh[0] == 'node':
                out.append('(shape %s node %d %s)' % (self.shape_id(i), 1 if sh[1] else 0, self.sexp(sh[2])))
            else:
                out.append('(shape %s rule %d)' % (self.shape_id(i), self.rule_index(sh[1])))
        return out

    # ---- Rust
    def rust_module(self):
        g = RustGen(self)
        return g.module()


def rust_str_lit(b):
    s = b.decode('utf8')
    return '"' + ''.join('\\u{%x}' % ord(c) for c in s) + '"'


class RustGen:
    def __init__(self, env):
        self.env = env
        self.wrappers = []
        self.big_seq = set()
        self.big_choice = set()

    def wrapper(self, b):
        name = 'W%d' % len(self.wrappers)
        self.wrappers.append(
            '#[derive(Clone, Hash, PartialEq, Eq)] pub struct %s; impl pest_typed::StringWrapper for %s { const CONTENT: &\'static str = %s; }'
            % (name, name, rust_str_lit(b)))
        return 'wrp::' + name

    def array_wrapper(self, bs):
        name = 'W%d' % len(self.wrappers)
        self.wrappers.append(
            '#[derive(Clone, Hash, PartialEq, Eq)] pub struct %s; impl pest_typed::StringArrayWrapper for %s { const CONTENT: &\'static [&\'static str] = &[%s]; }'
            % (name, name, ', '.join(rust_str_lit(b) for b in bs)))
        return 'wrp::' + name

    def k(self, k):
        return {'off': '0', 'on': '1', 'inh': 'INHERITED'}[k]

    def ty(self, e):
        if isinstance(e, str):
            return 'pn::' + {'any': 'ANY', 'soi': 'SOI', 'eoi': 'EOI', 'newline': 'NEWLINE', 'peek': "PEEK<'i>", 'pop': "POP<'i>",
                             'drop': 'DROP', 'peekall': "PEEK_ALL<'i>", 'popall': "POP_ALL<'i>", 'empty': "Empty<'i>",
                             'fail': "AlwaysFail<'i>"}[e]
        t = e[0]
        if t == 'str':
            return 'Str<%s>' % self.wrapper(e[1])
        if t == 'insens':
            return "Insens<'i, %s>" % self.wrapper(e[1])
        if t == 'range':
            return "CharRange<'\\u{%x}', '\\u{%x}'>" % (e[1], e[2])
        if t == 'charby':
            return 'pest_typed::predefined_node::unicode::%s' % e[1]
        if t == 'skipuntil':
            return "Skip<'i, %s>" % self.array_wrapper(e[1])
        if t == 'skipchars':
            return "SkipChar<'i, %d>" % e[1]
        if t == 'seq':
            n = len(e[2])
            if n > 12:
                self.big_seq.add(n)
            return 'Seq%d<%s>' % (n, ', '.join("Skipped<%s, SkipT<'i>, %s>" % (self.ty(x), self.k(e[1])) for x in e[2]))
        if t == 'choice':
            n = len(e[1])
            if n > 12:
                self.big_choice.add(n)
            return 'Choice%d<%s>' % (n, ', '.join(self.ty(x) for x in e[1]))
        if t == 'opt':
            return 'Option<%s>' % self.ty(e[1])
        if t == 'rep':
            if e[3] is None:
                return "RepMin<%s, SkipT<'i>, %s, %d>" % (self.ty(e[4]), self.k(e[1]), e[2])
            return "RepMinMax<%s, SkipT<'i>, %s, %d, %d>" % (self.ty(e[4]), self.k(e[1]), e[2], e[3])
        if t == 'atomicrep':
            return 'AtomicRepeat<%s>' % self.ty(e[1])
        if t == 'pos':
            return 'Positive<%s>' % self.ty(e[1])
        if t == 'neg':
            return 'Negative<%s>' % self.ty(e[1])
        if t == 'push':
            return 'Push<%s>' % self.ty(e[1])
        if t == 'slice':
            if e[2] is None:
                return 'PeekSlice1<%d>' % e[1]
            return 'PeekSlice2<%d, %d>' % (e[1], e[2])
        if t == 'arr':
            return '[%s; %d]' % (self.ty(e[2]), e[1])
        if t == 'pair':
            return '(%s, %s)' % (self.ty(e[1]), self.ty(e[2]))
        if t == 'rule':
            return "rules::%s<'i, %s>" % (e[1], self.k(e[2]))
        raise ValueError(e)

    def module(self):
        env = self.env
        rule_defs = []
        for (name, atom, emis, body, boxed) in env.rules:
            at = {'true': 'true', 'false': 'false', 'inh': 'INHERITED'}[atom]
            em = {'span': 'Span', 'expr': 'Expression', 'both': 'Both'}[emis]
            rule_defs.append('    pest_typed::rule!(%s, "r", super::Rule, super::Rule::%s, %s, super::SkipT<\'i>, %s, %s, %s);'
                             % (name, name, self.ty(body), at, em, 'true' if boxed else 'false'))
        skip_ty = "Empty<'i>" if env.skip is None else 'AtomicRepeat<%s>' % self.ty(env.skip)
        shape_types = []
        arms = []
        for i, sh in enumerate(env.shapes):
            if sh[0] == 'node':
                shape_types.append("pub type S%d<'i> = %s;" % (i, self.ty(sh[2]).replace('INHERITED', '1' if sh[1] else '0')))
                arms.append("        %d => match c.form.as_str() { \"str\" => rt::run_node::<Rule, S%d<'_>, _>(c.s.as_str().as_input()), \"pos\" => rt::run_node::<Rule, S%d<'_>, _>(pest_typed::Position::new(&c.s, c.a).unwrap().as_input()), _ => rt::run_node::<Rule, S%d<'_>, _>(pest_typed::Span::new(&c.s, c.a, c.b).unwrap().as_input()) }," % (i, i, i, i))
            else:
                shape_types.append("pub type S%d<'i> = rules::%s<'i, 1>;" % (i, sh[1]))
                arms.append("        %d => match c.form.as_str() { \"str\" => rt::run_rule::<Rule, S%d<'_>, _>(c.s.as_str(), &|r, k, p| audit(r, k, c, p)), \"pos\" => rt::run_rule::<Rule, S%d<'_>, _>(pest_typed::Position::new(&c.s, c.a).unwrap(), &|r, k, p| audit(r, k, c, p)), _ => rt::run_rule::<Rule, S%d<'_>, _>(pest_typed::Span::new(&c.s, c.a, c.b).unwrap(), &|r, k, p| audit(r, k, c, p)) }," % (i, i, i, i))
        big = []
        for n in sorted(self.big_seq):
            big.append('pest_typed::seq!(Seq%d, %d, %s);' % (n, n, ' '.join('T%d, %d,' % (i, i) for i in range(n))))
        for n in sorted(self.big_choice):
            big.append('pest_typed::choices!(Choice%d, choice%d, %d, %s);' % (n, n, n, ' '.join('T%d, _%d,' % (i, i) for i in range(n))))
        names = ['EOI'] + [r[0] for r in env.rules]
        # semantic audit of error reports: only for environments whose rules do not read the stack
        audit_arms = []
        if getattr(env, 'audit', False):
            for ri, rn in enumerate(names):
                for k in (0, 1):
                    t = "rules::%s<'_, %d>" % (rn, k)
                    audit_arms.append("        (%d, %d) => Some(match c.form.as_str() { \"str\" => rt::matches_at::<Rule, %s, _>(c.s.as_str().as_input(), pos), \"pos\" => rt::matches_at::<Rule, %s, _>(pest_typed::Position::new(&c.s, c.a).unwrap().as_input(), pos), _ => rt::matches_at::<Rule, %s, _>(pest_typed::Span::new(&c.s, c.a, c.b).unwrap().as_input(), pos) })," % (ri, k, t, t, t))
        ids = ', '.join('"%s"' % env.shape_id(i) for i in range(len(env.shapes)))
        return '''// generated by vlib/texpr.py -- environment %(name)s
#![allow(non_camel_case_types, dead_code, unused_imports, clippy::all)]
use pest_typed::predefined_node::*;
use pest_typed::predefined_node as pn;
use pest_typed::sequence::*;
use pest_typed::choices::*;
use pest_typed::{AsInput, TypedNode};
use crate::rt;

#[derive(Clone, Copy, Debug, Eq, Hash, Ord, PartialEq, PartialOrd)]
pub enum Rule { %(variants)s }
impl rt::Idx for Rule { fn idx(&self) -> usize { *self as usize } }

pub mod wrp {
%(wrappers)s
}
%(big)s
pub type SkipT<'i> = %(skip)s;

pub mod rules {
    use super::*;
    pest_typed::rule_eoi!(EOI, super::Rule);
%(rules)s
}

%(shape_types)s

pub const IDS: &[&str] = &[%(ids)s];

pub fn audit(rule: usize, k: usize, c: &rt::Case, pos: usize) -> Option<bool> {
    match (rule, k) {
%(audit_arms)s
        _ => None,
    }
}

pub fn run(shape: usize, c: &rt::Case) -> String {
    match shape {
%(arms)s
        _ => unreachable!(),
    }
}
''' % dict(name=env.name, variants=', '.join(names), wrappers='\n'.join('    ' + w for w in self.wrappers),
           big='\n'.join(big), skip=skip_ty, rules='\n'.join(rule_defs), shape_types='\n'.join(shape_types),
           ids=ids, arms='\n'.join(arms), audit_arms='\n'.join(audit_arms))
