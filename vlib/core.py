"""Shared evaluation of the `core` catalogue (rtcat) for the parser-level properties."""
import os

from . import rtcat, catalogue
from .common import log

# Which variant of the three repaired functions the faithful model follows (must mirror /repo):
#   restore_on_none by content (fix F1), skip_until cut at end() (fix F3), RepeatMinMax re-tests MIN (fix F7)
MODEL_FLAGS = (1, 1, 1)

_cache = {}


def core_run(tier, profile="debug", forms=("str", "sub")):
    key = (tier, profile, forms)
    if key not in _cache:
        envs = catalogue.catalogue(tier)
        run = rtcat.run_catalogue("core_%s" % tier, envs, lambda e: catalogue.inputs_for(e, tier, forms),
                                  profile=profile, flags=MODEL_FLAGS)
        _cache[key] = (envs, run)
    return _cache[key]


def describe(envs, sid):
    """shape id -> S-expression of the shape, for replays"""
    en, sn = sid.split(".")
    for e in envs:
        if e.name == en:
            i = int(sn[1:])
            return {"env": e.env_sexp(MODEL_FLAGS), "shape": e.shape_sexps()[i], "env_name": en, "shape_index": i}
    return {}


def scan(ctx, envs, run, families, t3, nontrivial, what_t3, max_report=6):
    """one pass over the records of the given families.
       t3(sid, fields, x, a) -> None | description of how the implementation violates the property on this case
       nontrivial(sid, fields, a) -> bool
    T2 (implementation == faithful model) is always checked."""
    fam_of = {e.name: getattr(e, "family", "") for e in envs}
    for p in run.problems:
        ctx.violation("harness problem: " + p, {"problem": p}, found_input=False)
    n = 0
    t2_bad = 0
    t3_bad = 0
    reported_shapes = set()
    found_shapes = {}
    plain_shapes = {}
    for a, b, x, aa in run.records():
        sid = a[:a.index("|")]
        fam = fam_of.get(sid.split(".")[0], "")
        if families and fam not in families:
            continue
        n += 1
        if n % 997 == 0 and len(ctx.samples) < 6:
            ctx.samples.append({"case": a[:300], "oracle": (aa or "")[:150]})
        fields = None
        if a != b:
            # the model no longer describes the code on this case: look for a failing input of the PROPERTY among
            # ALL disagreeing cases (oracle vs implementation); report the bare correspondence break only for shapes
            # on which no such input exists
            t2_bad += 1
            sid_, form, hx, ia, ib, fields = rtcat.split_line(a)
            fields["_hex"] = hx
            fields["_form"] = form
            fields["_a"] = ia
            fields["_b"] = ib
            fields["_model"] = b          # the model's line for the same case (oracles that compare derived observations)
            if sid in found_shapes or (sid in plain_shapes and len(found_shapes) >= max_report):
                continue
            why = t3(sid, fields, x, aa)
            rep = dict(describe(envs, sid), form=form, input_hex=hx, a=ia, b=ib, impl=a, model=b, oracle=aa)
            if why:
                if len(found_shapes) < max_report:
                    found_shapes[sid] = ("%s: %s (and the model no longer matches the code)" % (what_t3, why), rep)
            elif sid not in plain_shapes and len(plain_shapes) < 4 * max_report:
                rep["broken"] = "correspondence Sem.v (tparse/tcheck) vs the runtime crate on shape %s" % sid
                plain_shapes[sid] = ("model/implementation correspondence broken on %s" % sid, rep)
            continue
        # fast path: decide T3 on the raw line where possible
        sid_, form, hx, ia, ib, fields = rtcat.split_line(a)
        fields["_hex"] = hx
        fields["_form"] = form
        fields["_a"] = ia
        fields["_b"] = ib
        why = t3(sid, fields, x, aa)
        if why:
            t3_bad += 1
            if sid not in reported_shapes and len(reported_shapes) < max_report:
                reported_shapes.add(sid)
                rep = dict(describe(envs, sid), form=form, input_hex=hx, a=ia, b=ib, impl=a, model=b, oracle=aa)
                ctx.violation("%s: %s" % (what_t3, why), rep)
        elif nontrivial(sid, fields, aa):
            ctx.nontrivial.add((sid, form, hx, ia, ib))
        ctx.count("family=%s" % fam)
        ctx.count("len=%d" % (len(hx) // 2 if hx != "-" else 0))
        ctx.count("verdict=%s" % ("ok" if fields["P"].startswith("ok") else fields["P"][:5]))
    for sid, (msg, rep) in found_shapes.items():
        ctx.violation(msg, rep)
    nplain = 0
    for sid, (msg, rep) in plain_shapes.items():
        if sid not in found_shapes and nplain < (2 if found_shapes else max_report):
            nplain += 1
            ctx.violation(msg, rep, found_input=False)
    ctx.evaluations += n
    ctx.coverage["t2_mismatches"] = t2_bad
    ctx.coverage["t3_failures"] = t3_bad
    ctx.coverage["traces_validated_against_impl"] = n - t2_bad
    ctx.coverage["run_cached"] = run.cached
    return n
