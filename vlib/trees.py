"""C15 traversal half: token-tree generators, the unit-tree harness / model-driver runners, the Python
oracle of the property, and check_traversals(ctx, cases).

A *tree* is a nested tuple  (rule, start, end, (child, ...))  with rule in 0..NRULES-1 and byte offsets
into an input string; a *case* is (input_str, tree).  The wire format (harness stdin, model stdin) is
    <hex of input utf-8 | -> (rule start end child...)
and both sides answer with one canonical line
    pre=<tok>@<depth>|...;lvl=<tok>@<remaining>|...;tree=<hex>;children=<tok>|...;token=<tok>;thin=<tok>
"""
import os
import shutil
from functools import lru_cache

from .common import VERIF, REPO, CACHE, COQ, Rng, run, log, sha
from . import build

RULE_NAMES = ["a", "bb", "expr", "Term_2", "x9", "EOI"]     # = harness/unittree RULES = Traverse_drv.ml rule_names
NRULES = len(RULE_NAMES)
FIELDS = ["pre", "lvl", "tree", "children", "token", "thin"]

# characters of the inputs: ASCII, the characters `{:?}` escapes, 2/3/4-byte UTF-8 (all printable, so
# Rust's Debug leaves them literal)
ALPHABET = list("abcxyz019 _-+()[]{}") + ['"', "'", "\\", "\n", "\t", "\r", "é", "中", "\U0001F600"]


# ------------------------------------------------------------------ shapes

@lru_cache(maxsize=None)
def _forests(m):
    """all ordered forests with m nodes in total; a shape is the tuple of its child shapes"""
    if m == 0:
        return ((),)
    out = []
    for k in range(1, m + 1):
        for first in _forests(k - 1):          # a tree with k nodes = root + forest of k-1 nodes
            for rest in _forests(m - k):
                out.append((first,) + rest)
    return tuple(out)


def shapes_with(n):
    """all rose-tree shapes with exactly n nodes (Catalan(n-1) many)"""
    return _forests(n - 1)


def all_trees(max_nodes):
    """every rose-tree shape with 1..max_nodes nodes, exhaustive, smallest first"""
    out = []
    for n in range(1, max_nodes + 1):
        out.extend(shapes_with(n))
    return out


def shape_size(sh):
    return 1 + sum(shape_size(c) for c in sh)


def shape_height(sh):
    return 1 + max([shape_height(c) for c in sh] or [0])


# ------------------------------------------------------------------ labelling (spans nested + ordered, rules)

def _boundaries(s):
    """byte offsets of the char boundaries of s (len(s)+1 entries)"""
    b, off = [0], 0
    for ch in s:
        off += len(ch.encode("utf8"))
        b.append(off)
    return b


def label_canonical(shape):
    """parse-like labelling: every leaf owns one character, an inner node spans its leaves; rules follow
    the pre-order index.  Deterministic."""
    counter = [0]
    leafpos = [0]

    def go(sh):
        idx = counter[0]
        counter[0] += 1
        if not sh:
            s = leafpos[0]
            leafpos[0] += 1
            return (idx % NRULES, s, s + 1, ())
        kids = tuple(go(c) for c in sh)
        return (idx % NRULES, kids[0][1], kids[-1][2], kids)

    t = go(shape)
    n = leafpos[0]
    text = "".join("abcdefghijklmnopqrstuvwxyz"[i % 26] for i in range(n))
    return text, t


def label_random(shape, rng, mode=None):
    """random input over ALPHABET; spans: children are nested in the parent and ordered (end_i <= start_i+1),
    modes: loose (gaps, empty spans allowed), tight (children partition the parent), empty (all spans empty)"""
    n = shape_size(shape)
    mode = mode or rng.choice(["loose", "loose", "tight", "empty"])
    length = 0 if mode == "empty" and rng.chance(1, 2) else 1 + rng.below(2 * n + 2)
    text = "".join(rng.choice(ALPHABET) for _ in range(length))
    bnd = _boundaries(text)

    def go(sh, lo, hi):
        r = rng.below(NRULES)
        k = len(sh)
        if k == 0:
            return (r, bnd[lo], bnd[hi], ())
        if mode == "tight":
            cuts = sorted(lo + rng.below(hi - lo + 1) for _ in range(k - 1))
            pts = [lo]
            for c in cuts:
                pts += [c, c]
            pts.append(hi)
        elif mode == "empty":
            p = lo + rng.below(hi - lo + 1)
            pts = [p] * (2 * k)
        else:
            pts = sorted(lo + rng.below(hi - lo + 1) for _ in range(2 * k))
        kids = tuple(go(c, pts[2 * i], pts[2 * i + 1]) for i, c in enumerate(sh))
        return (r, bnd[lo], bnd[hi], kids)

    if mode == "empty":
        p = rng.below(len(bnd))
        lo, hi = p, p
    elif mode == "tight" or rng.chance(1, 2):
        lo, hi = 0, len(bnd) - 1
    else:
        a, b = rng.below(len(bnd)), rng.below(len(bnd))
        lo, hi = min(a, b), max(a, b)
    return text, go(shape, lo, hi)


# ------------------------------------------------------------------ random bigger shapes

def random_shape(rng, max_nodes=40):
    """random shapes biased to the cases the bookkeeping of the iterators could get wrong: wide levels,
    childless nodes between nodes with children, deep right/left spines, chains, bushy trees"""
    n = 2 + rng.below(max_nodes - 1)
    kind = rng.choice(["attach", "attach", "wide", "rspine", "lspine", "chain", "comb", "twolevel"])
    # build as mutable lists: node = list of children
    root = []
    nodes = [root]
    if kind == "attach":
        for _ in range(n - 1):
            p = rng.choice(nodes)
            c = []
            p.insert(rng.below(len(p) + 1), c)
            nodes.append(c)
    elif kind == "wide":
        # few inner nodes with many children; leaves interleaved with inner nodes
        inner = [root]
        for _ in range(n - 1):
            p = rng.choice(inner)
            c = []
            p.append(c)
            if rng.chance(1, 6):
                inner.append(c)
    elif kind in ("rspine", "lspine"):
        cur = root
        left = n - 1
        while left > 0:
            k = min(left, 1 + rng.below(4))
            kids = [[] for _ in range(k)]
            cur.extend(kids)
            left -= k
            cur = kids[-1] if kind == "rspine" else kids[0]
    elif kind == "chain":
        cur = root
        for _ in range(n - 1):
            c = []
            cur.append(c)
            cur = c
    elif kind == "comb":
        # spine where every spine node has a childless sibling before AND after it
        cur = root
        left = n - 1
        while left > 0:
            nxt = []
            kids = [[], nxt, []] if left >= 3 else [[], nxt] if left == 2 else [nxt]
            cur.extend(kids)
            left -= len(kids)
            cur = nxt
    else:  # twolevel: root with w children, each with 0..3 children (wide level after wide level)
        w = 1 + rng.below(max(1, n // 2))
        left = n - 1
        for _ in range(min(w, left)):
            root.append([])
            left -= 1
        while left > 0:
            rng.choice(root).append([])
            left -= 1

    def freeze(x):
        return tuple(freeze(c) for c in x)

    return freeze(root)


# ------------------------------------------------------------------ wire format

def tok_str(t):
    r, s, e, cs = t
    return "(" + " ".join([str(r), str(s), str(e)] + [tok_str(c) for c in cs]) + ")"


def hexs(s):
    b = s.encode("utf8")
    return b.hex() if b else "-"


def case_line(case):
    text, t = case
    return "%s %s" % (hexs(text), tok_str(t))


def parse_tok(s):
    """inverse of tok_str"""
    toks = s.replace("(", " ( ").replace(")", " ) ").split()
    pos = [0]

    def go():
        assert toks[pos[0]] == "("
        pos[0] += 1
        r, st, en = int(toks[pos[0]]), int(toks[pos[0] + 1]), int(toks[pos[0] + 2])
        pos[0] += 3
        kids = []
        while toks[pos[0]] == "(":
            kids.append(go())
        assert toks[pos[0]] == ")"
        pos[0] += 1
        return (r, st, en, tuple(kids))

    t = go()
    assert pos[0] == len(toks)
    return t


def parse_case_line(line):
    h, sx = line.split(" ", 1)
    text = "" if h == "-" else bytes.fromhex(h).decode("utf8")
    return text, parse_tok(sx)


def split_fields(line):
    """canonical line -> dict field -> value (None if the line is not of the canonical form)"""
    out = {}
    for part in line.split(";"):
        if "=" not in part:
            return None
        k, v = part.split("=", 1)
        out[k] = v
    return out


# ------------------------------------------------------------------ the property's oracle (T3), in Python

def rust_debug_str(s):
    """Rust `{:?}` of a str over ALPHABET-like text (printable chars literal)"""
    out = ['"']
    for ch in s:
        c = ord(ch)
        if ch == '"':
            out.append('\\"')
        elif ch == "\\":
            out.append("\\\\")
        elif ch == "\n":
            out.append("\\n")
        elif ch == "\r":
            out.append("\\r")
        elif ch == "\t":
            out.append("\\t")
        elif c == 0:
            out.append("\\0")
        elif c < 32 or c == 127 or 0x80 <= c < 0xA0:
            out.append("\\u{%x}" % c)
        else:
            out.append(ch)
    out.append('"')
    return "".join(out)


def tree_size(t):
    return 1 + sum(tree_size(c) for c in t[3])


def tree_height(t):
    return 1 + max([tree_height(c) for c in t[3]] or [0])


def spec_preorder(t, d=0):
    """the recursive definition: the token with its depth, then the pre-orders of the children"""
    out = [(t, d)]
    for c in t[3]:
        out.extend(spec_preorder(c, d + 1))
    return out


def spec_levels(t):
    """level k = tokens at distance k from the root, left to right"""
    out, cur = [], [t]
    while cur:
        out.append(cur)
        cur = [c for p in cur for c in p[3]]
    return out


def spec_render(text, t):
    data = text.encode("utf8")
    lines = []
    for tok, d in spec_preorder(t):
        r, s, e, cs = tok
        ln = "    " * d + RULE_NAMES[r]
        if not cs:
            ln += " " + rust_debug_str(data[s:e].decode("utf8"))
        lines.append(ln + "\n")
    return "".join(lines)


def expected_fields(case):
    text, t = case
    pre = "|".join("%s@%d" % (tok_str(x), d) for x, d in spec_preorder(t))
    lv = []
    for level in spec_levels(t):
        for i, x in enumerate(level):
            lv.append("%s@%d" % (tok_str(x), len(level) - 1 - i))
    return {
        "pre": pre,
        "lvl": "|".join(lv),
        "tree": hexs(spec_render(text, t)),
        "children": "|".join(tok_str(c) for c in t[3]),
        "token": tok_str(t),
        "thin": tok_str(t),
    }


def expected_line(case):
    f = expected_fields(case)
    return ";".join("%s=%s" % (k, f[k]) for k in FIELDS)


def well_formed(case):
    """spans on char boundaries, nested in the parent and ordered among siblings (what the generators
    promise; parse-produced trees are checked for it by the parser-driven part)"""
    text, t = case
    bnd = set(_boundaries(text))

    def go(x):
        r, s, e, cs = x
        if not (0 <= r < NRULES and s <= e and s in bnd and e in bnd):
            return False
        prev = s
        for c in cs:
            if not (prev <= c[1] and c[2] <= e):
                return False
            prev = c[2]
            if not go(c):
                return False
        return True

    return go(t)


# ------------------------------------------------------------------ builders / runners

def harness_dir():
    tag = "" if REPO == "/repo" else "-" + sha(REPO)[:8]
    return os.path.join(CACHE, "harness", "unittree" + tag)


def target_sub():
    return None if REPO == "/repo" else "alt-" + sha(REPO)[:8]


def _write_if_changed(path, txt):
    if not os.path.exists(path) or open(path).read() != txt:
        with open(path, "w") as f:
            f.write(txt)


def build_harness():
    """instantiate harness/unittree (Cargo.toml.in -> Cargo.toml with the path of REPO) under .cache and
    build it against the working tree of REPO.  Returns (ok, exe_or_log)."""
    src = os.path.join(VERIF, "harness", "unittree")
    dst = harness_dir()
    os.makedirs(os.path.join(dst, "src"), exist_ok=True)
    tmpl = open(os.path.join(src, "Cargo.toml.in")).read()
    _write_if_changed(os.path.join(dst, "Cargo.toml"), tmpl.replace("@REPO@", os.path.abspath(REPO)))
    for f in os.listdir(os.path.join(src, "src")):
        _write_if_changed(os.path.join(dst, "src", f), open(os.path.join(src, "src", f)).read())
    ok, res = build.cargo_build(dst, profile="debug", bins=["unittree"], target_sub=target_sub())
    if not ok:
        return False, res
    return True, os.path.join(res, "unittree")


def build_model():
    return build.build_extraction("Traverse")


def run_lines(exe, lines, args=(), timeout=None):
    """feed the case lines, return (list of result lines | None, error text).  A normal run takes well
    under a second per 1000 cases; the timeout (and an address-space limit) only matter when a broken
    loop of the code under test does not terminate."""
    if timeout is None:
        timeout = 60 + len(lines) // 50
    cmd = ["bash", "-c", 'ulimit -v 8388608; exec "$0" "$@"', exe] + list(args)
    rc, so, se = run(cmd, input="\n".join(lines) + "\n", timeout=timeout)
    res = so.split("\n")
    if res and res[-1] == "":
        res.pop()
    if rc != 0 or len(res) != len(lines):
        return None, "rc=%s, %d result lines for %d cases; %s" % (rc, len(res), len(lines), se[-500:])
    return res, ""


def run_impl_robust(exe, lines):
    """run the harness; if it hangs or dies (a broken loop may not terminate), isolate the first case on
    which it does.  Returns (results, bad) where bad = (index, reason) or None; results[i] is None from
    the bad case on."""
    res, err = run_lines(exe, lines)
    if res is not None:
        return res, None
    out = []
    chunk = 64
    i = 0
    while i < len(lines):
        part = lines[i:i + chunk]
        r, e = run_lines(exe, part, timeout=30)
        if r is not None:
            out.extend(r)
            i += len(part)
            continue
        for j, ln in enumerate(part):
            r1, e1 = run_lines(exe, [ln], timeout=10)
            if r1 is None:
                out.extend([None] * (len(lines) - len(out)))
                return out, (i + j, e1)
            out.extend(r1)
        i += len(part)
    return out, None                    # only the whole batch failed (e.g. too slow at once): every case answered


# ------------------------------------------------------------------ vm_compute cross-check of the extraction

def _coq_tok(t, ctor="Tok"):
    r, s, e, cs = t
    return "(%s %d%%N %d %d [%s])" % (ctor, r, s, e, "; ".join(_coq_tok(c, ctor) for c in cs))


def _coq_emitted(field):
    if field == "":
        return "[]"
    items = []
    for it in field.split("|"):
        ts, k = it.rsplit("@", 1)
        items.append("(%s, %d)" % (_coq_tok(parse_tok(ts)), int(k)))
    return "[%s]" % "; ".join(items)


def _coq_lines(field):
    items = []
    for it in field.split("|"):
        ind, r, txt = it.split(":")
        if txt == "_":
            o = "None"
        else:
            a, b = txt.split("-")
            o = "(Some (%d, %d))" % (int(a), int(b))
        items.append("(Line %d %d%%N %s)" % (int(ind), int(r), o))
    return "[%s]" % "; ".join(items)


def coq_crosscheck(cases, model_lines_with_abs):
    """the Coq kernel evaluates the model (vm_compute) on the given cases and must find exactly what the
    extracted OCaml driver printed.  Returns (ok, detail)."""
    d = os.path.join(CACHE, "coqx")
    os.makedirs(d, exist_ok=True)
    v = ["From Coq Require Import List NArith.", "From PT Require Import Model.Tok Model.Traverse.",
         "Import ListNotations."]
    for i, (case, ml) in enumerate(zip(cases, model_lines_with_abs)):
        f = split_fields(ml)
        if f is None or "lines" not in f or "OUTOFFUEL" in ml:
            return False, "model line not canonical: %s" % ml[:200]
        t = _coq_tok(case[1])
        kids = "[%s]" % "; ".join(_coq_tok(parse_tok(x)) for x in f["children"].split("|") if x)
        v.append("Example x%d : let t := %s in\n  (pre_order (fuel_for t) t, level_order (fuel_for t) t, render (fuel_for t) t,"
                 " as_thin_token t, children_of t, as_token t) =\n  (Some %s,\n   Some %s,\n   Some %s,\n   %s,\n   %s,\n   %s).\n"
                 "Proof. vm_compute. reflexivity. Qed." % (
                     i, t, _coq_emitted(f["pre"]), _coq_emitted(f["lvl"]), _coq_lines(f["lines"]),
                     _coq_tok(parse_tok(f["thin"]), "Thin"), kids, _coq_tok(parse_tok(f["token"]))))
    src = os.path.join(d, "TraverseX.v")
    with open(src, "w") as fh:
        fh.write("\n".join(v) + "\n")
    rc, so, se = run(["timeout", "600", "coqc", "-Q", os.path.join(COQ, "theories"), "PT", "-w",
                      "-notation-overridden", "-o", os.path.join(d, "TraverseX.vo"), src], cwd=d, timeout=630)
    return rc == 0, (so + se)[-1500:]


# ------------------------------------------------------------------ the check

def first_diff_field(a, b):
    fa, fb = split_fields(a) if a else None, split_fields(b) if b else None
    if fa is None or fb is None:
        return "line"
    for k in FIELDS:
        if fa.get(k) != fb.get(k):
            return k
    return "line"


def describe(case):
    text, t = case
    return {"input": text, "input_hex": hexs(text), "tree": tok_str(t), "line": case_line(case),
            "nodes": tree_size(t), "height": tree_height(t)}


def check_traversals(ctx, cases, tag="unit", crosscheck=16, max_reports=3):
    """cases: list of (input_str, tree).  Runs the real crate (harness/unittree) and the extracted Coq
    model on every case and
      T3  compares the implementation with the property's oracle computed here in Python (pre-order =
          recursive definition with depths, level order = level by level with the remaining count,
          format_as_tree = one line per pre-order entry, 4 spaces per level, text iff leaf; children /
          as_token / as_thin_token = the tree itself),
      T2  diffs the implementation against the model (the object the Coq theorems are about),
      and cross-checks the extraction by vm_compute on a sample.
    A failing input is reported with ctx.violation(...).  Returns True iff nothing failed."""
    ok_all = True
    okh, exe = build_harness()
    ctx.oblige("build harness/unittree against %s" % REPO, okh, "" if okh else exe)
    okm, drv = build_model()
    ctx.oblige("build extracted traversal model (Traverse_drv)", okm, "" if okm else drv)
    if not okh:
        ctx.violation("harness/unittree does not build against the working tree (API of iterators.rs changed?)",
                      {"log": exe[-3000:]}, found_input=False)
        return False
    if not okm:
        ctx.violation("traversal model does not build", {"log": drv[-3000:]}, found_input=False)
        return False
    lines = [case_line(c) for c in cases]
    for c in cases:
        assert well_formed(c), "generator produced an ill-formed case: %r" % (c,)

    impl, bad = run_impl_robust(exe, lines)
    model, merr = run_lines(drv, lines, args=["--lines"])
    ctx.oblige("model driver ran on %d %s cases" % (len(lines), tag), model is not None, merr)
    if model is None:
        ctx.violation("model driver failed", {"error": merr}, found_input=False)
        return False
    model_abs = model
    model = [m.split(";lines=")[0] for m in model]

    reports = 0
    n_t3 = n_t2 = n_mo = 0
    for i, case in enumerate(cases):
        exp = expected_line(case)
        im = impl[i] if i < len(impl) else None
        t = case[1]
        ctx.evaluations += 1
        n, h = tree_size(t), tree_height(t)
        ctx.count("%s nodes=%s" % (tag, n if n <= 9 else "%d-%d" % (n // 10 * 10, n // 10 * 10 + 9)))
        ctx.count("%s depth=%s" % (tag, h - 1 if h <= 8 else "8+"))
        ctx.count("%s maxwidth=%s" % (tag, (lambda w: w if w <= 4 else "5-9" if w <= 9 else "10+")(max(len(l) for l in spec_levels(t)))))
        if n >= 3 and h >= 3:
            ctx.nontrivial.add(lines[i])
        # model vs oracle: the Python oracle and the proved model must agree, else the machinery is broken
        if model[i] != exp:
            n_mo += 1
            ok_all = False
            if reports < max_reports:
                reports += 1
                ctx.violation("C15 model/oracle mismatch (field %s): the extracted Coq model and the Python oracle of the property disagree" % first_diff_field(model[i], exp),
                              dict(describe(case), model=model[i], expected=exp, impl=im), found_input=False)
        if im is None:
            continue
        if im != exp:
            n_t3 += 1
            ok_all = False
            if reports < max_reports:
                reports += 1
                fld = first_diff_field(im, exp)
                fi, fe = split_fields(im) or {}, split_fields(exp)
                ctx.violation("C15 traversal (%s) differs from the property's oracle on a %d-node tree: field %s" % (tag, n, fld),
                              dict(describe(case), impl=im, expected=exp, model=model[i], field=fld,
                                   impl_field=fi.get(fld, im), expected_field=fe.get(fld)))
        elif im != model[i]:
            n_t2 += 1
            ok_all = False
            if reports < max_reports:
                reports += 1
                ctx.violation("C15 traversal (%s) differs from the Coq model: field %s" % (tag, first_diff_field(im, model[i])),
                              dict(describe(case), impl=im, model=model[i], expected=exp))
    if bad is not None:
        ok_all = False
        idx, why = bad
        ctx.violation("C15 traversal (%s): the real iterators do not return on this tree (hang/crash: %s)" % (tag, why[:200]),
                      dict(describe(cases[idx]), impl=None, expected=expected_line(cases[idx]), model=model[idx]))
    ctx.oblige("T3 %s: implementation = oracle on %d cases" % (tag, len(cases)), n_t3 == 0 and bad is None, "%d differ" % n_t3)
    ctx.oblige("T2 %s: implementation = Coq model on %d cases" % (tag, len(cases)), n_t2 == 0 and n_t3 == 0 and bad is None, "%d differ" % (n_t2 + n_t3))
    ctx.oblige("%s: Coq model = Python oracle on %d cases" % (tag, len(cases)), n_mo == 0, "%d differ" % n_mo)

    if crosscheck and cases:
        rng = Rng(ctx.seed).fork("crosscheck-" + tag)
        idxs = sorted({rng.below(len(cases)) for _ in range(crosscheck)})
        okx, detail = coq_crosscheck([cases[j] for j in idxs], [model_abs[j] for j in idxs])
        ctx.oblige("vm_compute cross-check of the extraction on %d %s cases" % (len(idxs), tag), okx, detail)
        if not okx:
            ok_all = False
            ctx.violation("extracted traversal model disagrees with vm_compute", {"detail": detail}, found_input=False)
    return ok_all


def replay_case(rep):
    """re-run a recorded violation (dict with key 'line') on the current working tree of REPO.
    Returns (still_fails, impl_line, expected_line)."""
    okh, exe = build_harness()
    if not okh:
        return True, "harness does not build", ""
    case = parse_case_line(rep["line"])
    res, bad = run_impl_robust(exe, [rep["line"]])
    exp = expected_line(case)
    return (bad is not None or res[0] != exp), res[0], exp
