"""Wrapper around harness/gen_dump: run the REAL pest_typed_generator at run time (no rustc) on many
grammars and get back, per grammar, pest_meta's verdict/ASTs and what the generator emitted (rule!
invocations as texpr S-expressions, generics names, getters, sha256 of the token text).

    from vlib import gendump
    ok, exe = gendump.build()
    res = gendump.dump([("g1", 'a = { "x" ~ b* } b = { ^"y" }', {"emit_rule_reference": True})])
    r = res["g1"]                      # Result (nested lists of str; HEX fields decoded by helpers)
    r.field("meta")  -> ["meta", "ok"]
    r.typed_rules()  -> {"a": {"atom": "inh", "emis": "both", "boxed": "true", "texpr": [...]}, ...}

The wire format (field grammar) is documented in NOTES-agents.md, section "gen_dump".
"""
import os
import subprocess
from concurrent.futures import ThreadPoolExecutor

from .common import VERIF, REPO, CACHE, NCPU, sha, log
from . import build as _build

SRC = os.path.join(VERIF, "harness", "gen_dump")
OPTIONS = ("emit_rule_reference", "emit_tagged_node_reference", "do_not_emit_span", "pest_optimizer",
           "box_only_if_needed", "no_warnings", "truncate_getter_at_node_tag", "simulate_pair_api")


# ------------------------------------------------------------------ hex / S-expressions

def hexs(s):
    """str|bytes -> HEX field ('-' for empty)"""
    b = s.encode("utf8") if isinstance(s, str) else bytes(s)
    return b.hex() if b else "-"


def unhex(h):
    """HEX field -> str (utf8, errors replaced)"""
    return "" if h == "-" else bytes.fromhex(h).decode("utf8", "replace")


def unhex_bytes(h):
    return b"" if h == "-" else bytes.fromhex(h)


_TOK = None


def parse_sexp(text):
    """one S-expression -> nested lists of str atoms.  Iterative (results can be deeply nested)."""
    global _TOK
    if _TOK is None:
        import re
        _TOK = re.compile(r"[()]|[^\s()]+")
    stack = [[]]
    cur = stack[0]
    for t in _TOK.findall(text):
        if t == "(":
            new = []
            cur.append(new)
            stack.append(new)
            cur = new
        elif t == ")":
            if len(stack) == 1:
                raise ValueError("unbalanced ')'")
            stack.pop()
            cur = stack[-1]
        else:
            cur.append(t)
    if len(stack) != 1 or len(cur) != 1 or not isinstance(cur[0], list):
        raise ValueError("not exactly one balanced S-expression")
    return cur[0]


def show_sexp(x):
    """nested lists -> text (iterative)"""
    if x is None:
        return "<absent>"
    out = []
    work = [x]
    while work:
        t = work.pop()
        if isinstance(t, list):
            out.append("(")
            work.append(None)
            for y in reversed(t):
                work.append(y)
        elif t is None:
            if out and out[-1] == " ":
                out.pop()
            out.append(")")
            out.append(" ")
        else:
            out.append(t)
            out.append(" ")
    if out and out[-1] == " ":
        out.pop()
    return "".join(out)


def contains_tag(x, tag):
    """does some sub-list start with the atom `tag` (e.g. "unknown")?  iterative"""
    work = [x]
    while work:
        t = work.pop()
        if isinstance(t, list):
            if t and t[0] == tag:
                return True
            work.extend(t)
    return False


class Result:
    """`(result ID FIELD...)` line; parsed lazily on first access (`.sexp`, `.fields`, any accessor)."""

    def __init__(self, line, gid=None):
        self.line = line
        self.id = gid
        self._sexp = None
        self._fields = None

    def _parse(self):
        if self._sexp is None:
            try:
                sexp = parse_sexp(self.line)
                if not sexp or sexp[0] != "result":
                    raise ValueError("not a result line")
            except ValueError as e:
                sexp = ["result", self.id or "?", ["toolerror", hexs("unparsable output line: %s" % e)]]
            self._sexp = sexp
            if self.id is None:
                self.id = sexp[1] if len(sexp) > 1 and isinstance(sexp[1], str) else "?"
            self._fields = {}
            for f in sexp[2:]:
                if isinstance(f, list) and f and isinstance(f[0], str):
                    self._fields[f[0]] = f

    @property
    def sexp(self):
        self._parse()
        return self._sexp

    @property
    def fields(self):
        self._parse()
        return self._fields

    def field(self, name):
        return self.fields.get(name)

    def has(self, name):
        return name in self.fields

    # -- verdicts
    @property
    def toolerror(self):
        f = self.field("toolerror")
        return unhex(f[1]) if f else None

    @property
    def meta_ok(self):
        f = self.field("meta")
        return bool(f) and f[1] == "ok"

    @property
    def meta_msg(self):
        f = self.field("meta")
        return unhex(f[2]) if f and f[1] == "err" else None

    @property
    def gen_ok(self):
        f = self.field("gen")
        return bool(f) and f[1] == "ok"

    @property
    def gen_msg(self):
        f = self.field("gen")
        return unhex(f[2]) if f and f[1] == "panic" else None

    @property
    def tokens(self):
        f = self.field("tokens")
        return f[1] if f else None

    # -- ASTs: list of (name, kind, expr)
    def ast(self, which="ast_opt"):
        f = self.field(which)
        if f is None:
            return None
        return [(r[1], r[2], r[3]) for r in f[1:]]

    # -- typed
    def skip_def(self):
        f = self.field("typed")
        for x in (f or [])[1:]:
            if x[0] == "skip":
                return x[1]
        return None

    def wrappers(self):
        f = self.field("typed")
        for x in (f or [])[1:]:
            if x[0] == "wrappers":
                return int(x[1])
        return None

    def typed_rule_list(self):
        """[(name, atom, emis, boxed, texpr, extras)] in emission order"""
        f = self.field("typed")
        return [(x[1], x[2], x[3], x[4], x[5], x[6:]) for x in (f or [])[1:] if x[0] == "rule"]

    def typed_rules(self):
        return {n: {"atom": a, "emis": e, "boxed": b, "texpr": t, "extras": x}
                for (n, a, e, b, t, x) in self.typed_rule_list()}

    def aliases(self):
        f = self.field("typed")
        return {x[1]: x[2] for x in (f or [])[1:] if x[0] == "alias"}

    def has_eoi(self):
        f = self.field("typed")
        return any(x[0] == "eoi" for x in (f or [])[1:])

    def generics(self):
        f = self.field("generics")
        return list(f[1:]) if f else None

    def getters(self):
        """{rule: {getter: {"type": T, "path": P, "boxed": "0"|"1"}}}"""
        f = self.field("getters")
        out = {}
        for r in (f or [])[1:]:
            d = {}
            for g in r[1:]:
                if len(g) != 4:          # `(unknown HEX)`: an impl item that is not a getter fn
                    d.setdefault("?", []).append(g)
                    continue
                d[g[0]] = {"type": g[1], "path": g[2], "boxed": g[3][1]}
            out[r[0]] = d
        return out

    def enum(self):
        f = self.field("enum")
        return list(f[1:]) if f else None

    def anomalies(self):
        """list of things the extractor could not classify (empty for everything the current generator emits
        without grammar-extras).  Structure-aware: rule and getter NAMES are never mistaken for markers."""
        bad = ("unknown", "tok", "k", "ignored")
        out = []
        for x in (self.field("typed") or [])[1:]:
            h = x[0] if x else None
            if h == "skip":
                if x[1] == ["missing"] or any(contains_tag(x[1], b) for b in bad):
                    out.append(("skip", x[1]))
            elif h == "rule":
                if len(x) != 6 or any(contains_tag(y, b) for y in x[2:] for b in bad):
                    out.append(("rule", x[1]))
            elif h not in ("wrappers", "alias", "eoi"):
                out.append(("typed", x))
        for x in (self.field("generics") or [])[1:]:
            if not isinstance(x, str):
                out.append(("generics", x))
        for r in (self.field("getters") or [])[1:]:
            for g in r[1:]:
                if (len(g) != 4 or not isinstance(g[0], str) or g[3] not in (["boxed", "0"], ["boxed", "1"])
                        or any(contains_tag(y, b) for y in g[1:3] for b in bad)):
                    out.append(("getter", r[0], g[0] if g else None))
        return out

    def has_unknown(self):
        return bool(self.anomalies())

    def used_generics(self):
        """names of the `generics` module that the emitted rule types use (from the texprs), to be compared
        with generics(): Str Insens PeekSlice1/2 Push Skip CharRange Positive Negative SeqN ChoiceN Rep RepOnce
        RepExact RepMin RepMax RepMinMax"""
        names = set()
        head = {"str": "Str", "insens": "Insens", "push": "Push", "skipuntil": "Skip", "range": "CharRange",
                "pos": "Positive", "neg": "Negative", "repexact": "RepExact", "repmin": "RepMin",
                "repmax": "RepMax", "repminmax": "RepMinMax"}
        work = [t for (_, _, _, _, t, _) in self.typed_rule_list()]
        while work:
            t = work.pop()
            if not isinstance(t, list) or not t:
                continue
            h = t[0]
            if h in head:
                names.add(head[h])
            elif h == "slice":
                names.add("PeekSlice1" if t[2] == "none" else "PeekSlice2")
            elif h == "seq":
                names.add("Seq%d" % (len(t) - 2))
            elif h == "seqx":
                names.add("Seq%d" % (len(t) - 1))
            elif h == "choice":
                names.add("Choice%d" % (len(t) - 1))
            elif h == "rep":
                names.add("Rep" if t[2] == "0" else "RepOnce")
            if h in ("str", "insens", "skipuntil", "unknown", "k", "tok"):
                continue
            work.extend(x for x in t[1:] if isinstance(x, list))
        return names


# ------------------------------------------------------------------ build

def harness_dir():
    tag = "" if REPO == "/repo" else "-" + sha(REPO)[:8]
    return os.path.join(CACHE, "harness", "gen_dump" + tag)


def target_sub():
    return None if REPO == "/repo" else "alt-" + sha(REPO)[:8]


def _write_if_changed(path, txt):
    if not os.path.exists(path) or open(path).read() != txt:
        with open(path, "w") as f:
            f.write(txt)


_EXE = {}


def build(features=None):
    """instantiate harness/gen_dump (Cargo.toml.in -> Cargo.toml with the path of REPO) under .cache and build
    it against the working tree of REPO.  features="grammar-extras" builds the variant with node tags.
    Returns (ok, exe_or_log)."""
    dst = harness_dir() + ("-" + features.replace(",", "-") if features else "")
    os.makedirs(os.path.join(dst, "src"), exist_ok=True)
    tmpl = open(os.path.join(SRC, "Cargo.toml.in")).read()
    _write_if_changed(os.path.join(dst, "Cargo.toml"), tmpl.replace("@REPO@", os.path.abspath(REPO)))
    for f in os.listdir(os.path.join(SRC, "src")):
        _write_if_changed(os.path.join(dst, "src", f), open(os.path.join(SRC, "src", f)).read())
    sub = target_sub()
    if features:
        sub = (sub or "gd") + "-" + features.replace(",", "-")
    ok, res = _build.cargo_build(dst, profile="debug", bins=["gen_dump"], features=features, target_sub=sub)
    if not ok:
        return False, res
    exe = os.path.join(res, "gen_dump")
    _EXE[features] = exe
    return True, exe


def _exe(exe=None, features=None):
    if exe:
        return exe
    if features not in _EXE:
        ok, res = build(features)
        if not ok:
            raise RuntimeError("gen_dump build failed:\n" + res)
    return _EXE[features]


# ------------------------------------------------------------------ run

def request_line(gid, text, opts=None):
    gid = str(gid)
    if not gid or any(c in gid for c in "() \t\r\n"):
        raise ValueError("bad grammar id %r" % (gid,))
    parts = []
    for k, v in (opts or {}).items():
        if v is None:
            parts.append(k)
        else:
            parts.append("%s=%s" % (k, "true" if v else "false"))
    return "(grammar %s %s (%s))" % (gid, hexs(text), " ".join(parts))


def _run_once(exe, lines, timeout, env=None, cwd=None):
    """-> (list of output lines, returncode or None on timeout, stderr tail)"""
    e = dict(os.environ)
    if env:
        e.update(env)
    try:
        p = subprocess.run([exe], input=("\n".join(lines) + "\n").encode(), capture_output=True,
                           timeout=timeout, env=e, cwd=cwd)
        out, rc, err = p.stdout, p.returncode, p.stderr
    except subprocess.TimeoutExpired as ex:
        out, rc, err = ex.stdout or b"", None, b"TIMEOUT"
    res = out.decode("utf8", "replace").split("\n")
    if res and res[-1] == "":
        res.pop()
    return res, rc, err.decode("utf8", "replace")[-400:]


def _synth_error(gid, msg):
    return "(result %s (toolerror %s))" % (gid, hexs(msg))


def _run_chunk(exe, ids, lines, timeout):
    """run one process over `lines`; if it dies or hangs (stack overflow, abort, endless loop in the code under
    test), the first unanswered request is blamed (synthetic toolerror) and the rest is re-run."""
    out = []
    pos = 0
    while pos < len(lines):
        res, rc, err = _run_once(exe, lines[pos:], timeout)
        # only complete, well-formed lines count
        good = []
        for k, l in enumerate(res):
            if pos + k < len(lines) and l.startswith("(result %s " % ids[pos + k]) and l.endswith(")"):
                good.append(l)
            else:
                break
        out.extend(good)
        pos += len(good)
        if pos < len(lines):
            why = "timeout" if rc is None else "exit status %s" % rc
            out.append(_synth_error(ids[pos], "gen_dump process died on this request (%s) %s" % (why, err)))
            pos += 1
    return out


def dump(grammars, exe=None, features=None, jobs=None, chunk=None, timeout=None, raw=False):
    """grammars: list of (id, text, opts dict) -> dict id -> Result (or the raw line if raw=True).
    ids must be unique atoms.  Large batches are split over `jobs` (default NCPU) parallel processes."""
    exe = _exe(exe, features)
    ids = [str(g[0]) for g in grammars]
    if len(set(ids)) != len(ids):
        raise ValueError("grammar ids must be unique")
    lines = [request_line(g[0], g[1], g[2] if len(g) > 2 else None) for g in grammars]
    n = len(lines)
    if n == 0:
        return {}
    jobs = jobs or NCPU
    if chunk is None:
        chunk = max(1, min(2000, (n + jobs - 1) // jobs)) if n >= 64 else n
    if timeout is None:
        timeout = 120 + chunk // 5
    spans = [(i, min(n, i + chunk)) for i in range(0, n, chunk)]
    if len(spans) == 1:
        outs = [_run_chunk(exe, ids, lines, timeout)]
    else:
        with ThreadPoolExecutor(max_workers=jobs) as ex:
            outs = list(ex.map(lambda ab: _run_chunk(exe, ids[ab[0]:ab[1]], lines[ab[0]:ab[1]], timeout), spans))
    result = {}
    k = 0
    for part in outs:
        for l in part:
            gid = ids[k]
            k += 1
            result[gid] = l if raw else Result(l, gid)
    assert k == n
    return result


def dump_one(text, opts=None, exe=None, features=None):
    return dump([("g", text, opts or {})], exe=exe, features=features)["g"]


def dump_fresh_processes(grammar, opts=None, n=4, exe=None, features=None):
    """run the tool n times in n separate processes (different VERIF_NONCE, different cwd under .cache, and a
    different amount of unrelated environment) on the same grammar -> list of n `tokens` hashes (None where
    the generator did not return).  Determinism check: all equal."""
    exe = _exe(exe, features)
    line = request_line("d", grammar, opts or {})
    hashes = []
    for i in range(n):
        cwd = os.path.join(CACHE, "gendump_cwd", "p%d" % i)
        os.makedirs(cwd, exist_ok=True)
        env = {"VERIF_NONCE": str(i), "VERIF_PAD_%d" % i: "x" * (17 * i)}
        res, rc, err = _run_once(exe, [line], 120, env=env, cwd=cwd)
        hashes.append(Result(res[0], "d").tokens if res else None)
    return hashes


# ------------------------------------------------------------------ self-test:  python3 -m vlib.gendump

def _ref_translate(rules, optimized):
    """Plain transcription of graph/optimized_rule.rs / graph/rule.rs on the dumped AST, used ONLY by selftest()
    to sanity-check the syn extraction (the real specification is the Coq `translate`).
    rules: [(name, kind, expr)] -> {name: (atom, emis, texpr)}"""
    defined = {n for (n, _, _) in rules}

    def chain(e, tag):
        items = []
        while e[0] == tag:
            items.append(e[1])
            e = e[2]
        items.append(e)
        return items

    def tr(e, k):
        h = e[0]
        if h in ("str", "insens"):
            return [h, e[1]]
        if h == "range":
            return ["range", e[1], e[2]]
        if h == "ident":
            return ["rule", e[1], k if e[1] in defined else "default"]
        if h == "peekslice":
            return ["slice", e[1], e[2]]
        if h == "pospred":
            return ["pos", tr(e[1], k)]
        if h == "negpred":
            return ["neg", tr(e[1], k)]
        if h == "seq":
            return ["seq", k] + [tr(x, k) for x in chain(e, "seq")]
        if h == "choice":
            return ["choice"] + [tr(x, k) for x in chain(e, "choice")]
        if h == "opt":
            return ["opt", tr(e[1], k)]
        if h == "rep":
            return ["rep", k, "0", "none", tr(e[1], k)]
        if h == "reponce":
            return ["rep", k, "1", "none", tr(e[1], k)]
        if h in ("repexact", "repmin", "repmax"):
            return [h, k, e[2], tr(e[1], k)]
        if h == "repminmax":                       # emitted under the name RepMax with two bounds (rule.rs:401)
            return ["repmax", k, e[2], e[3], tr(e[1], k)]
        if h == "skip":
            return ["skipuntil", e[1]]
        if h == "push":
            return ["push", tr(e[1], k)]
        if h in ("restore", "tag"):
            return tr(e[-1], k)
        raise ValueError(h)

    out = {}
    for (n, kind, e) in rules:
        atom, emis, k = {"normal": ("inh", "both", "inh"), "silent": ("inh", "expr", "inh"),
                         "atomic": ("true", "span", "off"), "compound": ("true", "both", "off"),
                         "nonatomic": ("false", "both", "on")}[kind]
        out[n] = (atom, emis, tr(e, k))
    return out


def selftest(verbose=True):
    """dump the three grammars of the repository under several option sets and assert basic sanity."""
    import re
    import time
    ok, res = build()
    assert ok, res
    files = [os.path.join(REPO, "generator/tests/syntax.pest"), os.path.join(REPO, "derive/tests/grammar.pest"),
             os.path.join(REPO, "generator/tests/grammar.pest")]
    optsets = [{}, {"emit_rule_reference": True}, {"pest_optimizer": False},
               {"pest_optimizer": False, "emit_rule_reference": True},
               {"emit_rule_reference": True, "box_only_if_needed": True}]
    cases = []
    for fi, f in enumerate(files):
        text = open(f, encoding="utf8").read()
        for oi, o in enumerate(optsets):
            cases.append(("f%d_o%d" % (fi, oi), text, o))
    t0 = time.time()
    out = dump(cases)
    dt = time.time() - t0
    for (gid, text, o) in cases:
        r = out[gid]
        assert r.toolerror is None, (gid, r.toolerror)
        assert r.meta_ok and r.gen_ok, (gid, r.meta_msg, r.gen_msg)
        names = [n for (n, _, _) in r.ast("ast_raw")]
        assert [n for (n, _, _) in r.ast("ast_opt")] == names
        typed = r.typed_rules()
        assert list(n for (n, *_rest) in r.typed_rule_list()) == names, (gid, "typed rules != grammar rules")
        assert r.enum() == ["EOI"] + names, gid
        assert r.has_eoi()
        assert not r.has_unknown(), (gid, [l for l in re.findall(r"\(unknown [0-9a-f-]+\)", r.line)][:3])
        assert set(r.getters().keys()) == set(names), gid
        if not o.get("emit_rule_reference"):
            assert all(not g for g in r.getters().values()), gid
        missing = r.used_generics() - set(r.generics())
        if o.get("pest_optimizer", True):
            assert not missing, (gid, missing)
        if verbose:
            log("%s %s opts=%s: %d rules, %d wrappers, skip=%s, undefined generics=%s" % (
                gid, os.path.basename(os.path.dirname(os.path.dirname(files[int(gid[1])]))), o, len(names),
                r.wrappers(), show_sexp(r.skip_def()), sorted(missing)))
        optimized = o.get("pest_optimizer", True)
        ref = _ref_translate(r.ast("ast_opt" if optimized else "ast_raw"), optimized)
        for n, d in typed.items():
            assert (d["atom"], d["emis"], d["texpr"]) == ref[n], (gid, n, show_sexp(d["texpr"]), show_sexp(ref[n][2]))
            assert d["boxed"] == "true" or o.get("box_only_if_needed"), (gid, n)
            assert not d["extras"]
        if gid == "f0_o1":
            # compare with the golden file generator/tests/syntax-expected.rs (Regular::CharRange, line 197-260)
            g = r.getters()["Regular"]["CharRange"]
            assert show_sexp(g["type"]) == ("(tuple (tuple (ref CharRange inh) (vec (ref CharRange inh))) "
                                            "(ref CharRange inh) (vec (ref CharRange inh)))"), show_sexp(g["type"])
            assert show_sexp(g["path"]) == ("(tuple (seqi 0 (tuple (seqi 0 res) (seqi 1 (contents res)))) "
                                            "(seqi 2 res) (seqi 3 (contents res)))"), show_sexp(g["path"])
            assert g["boxed"] == "1"
            if verbose:
                for rn in ("Regular", "Opt", "Choice", "Neg"):
                    log("   getters of %s: %s" % (rn, show_sexp([rn] + [[k, v["type"], v["path"]] for k, v in r.getters()[rn].items()])))
    bad = [("b0", "a = { a }"), ("b1", 'a = { "x"* * }'), ("b2", 'a = { (!"x")* }'), ("b3", "a = { b }"),
           ("b4", "a = {"), ("b5", 'a = { ("")* }'), ("b6", 'a = { "x" } a = { "y" }'), ("b7", 'ANY = { "x" }')]
    outb = dump([(i, t, {}) for (i, t) in bad] + [(i + "r", t, {"pest_optimizer": False}) for (i, t) in bad])
    for (i, t) in bad:
        for j in (i, i + "r"):
            r = outb[j]
            assert r.toolerror is None
            assert not r.meta_ok, (j, t, r.line)
            stage = r.field("meta")[3]
            if stage in ("parse", "consume"):
                assert not r.gen_ok and not r.has("typed"), (j, t, r.line)
                assert r.ast() is None
            else:
                # pest rejects these in validator::validate_pairs, which pest-typed's generator never calls
                assert stage == "validate" and r.ast() is not None, (j, t, r.line)
            if verbose and j == i:
                log("%s %r -> meta(%s): %r | gen: %s" % (j, t, stage, r.meta_msg.split("\n")[-1][:70],
                    "ok" if r.gen_ok else "panic %r" % r.gen_msg.split("\n")[0][:60]))
    hs = dump_fresh_processes(open(files[0], encoding="utf8").read(), {"emit_rule_reference": True}, 4)
    assert hs[0] and len(set(hs)) == 1, hs
    # throughput on small grammars
    small = [("s%d" % i, 'a%d = { "x%d" ~ b* ~ (c | b)? } b = @{ ^"y"+ } c = _{ !b ~ ANY }' % (i, i),
              {"emit_rule_reference": True}) for i in range(4000)]
    t1 = time.time()
    outs = dump(small, jobs=1, chunk=4000)
    dt1 = time.time() - t1
    assert all(outs[g[0]].gen_ok for g in small)
    t2 = time.time()
    outp = dump([("p%d" % i, g[1], g[2]) for i, g in enumerate(small * 4)])
    dt2 = time.time() - t2
    assert all(r.gen_ok for r in outp.values())
    assert len({outp["p%d" % i].tokens for i in (0, 4000, 8000, 12000)}) == 1
    if verbose:
        log("15 file dumps: %.2fs; 4000 small grammars in ONE process: %.2fs (%.0f/s); 16000 in parallel: %.2fs "
            "(%.0f/s); determinism hashes equal: %s" % (dt, dt1, 4000 / dt1, dt2, 16000 / dt2, hs[0][:16]))
    return True


if __name__ == "__main__":
    selftest()
    print("gendump selftest OK")
