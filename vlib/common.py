"""Shared plumbing for ./vcheck: paths, subprocesses, evidence, violations, known findings."""
import hashlib
import json
import os
import subprocess
import sys
import time

VERIF = os.path.dirname(os.path.dirname(os.path.abspath(__file__)))
REPO = os.environ.get("VERIF_REPO", "/repo")
CACHE = os.path.join(VERIF, ".cache")
COQ = os.path.join(VERIF, "coq")
EVID = os.path.join(VERIF, "evidence")
REPLAYS = os.path.join(VERIF, "replays")
NCPU = 16

os.makedirs(CACHE, exist_ok=True)
os.makedirs(EVID, exist_ok=True)
os.makedirs(REPLAYS, exist_ok=True)


def log(*a):
    print(*a, file=sys.stderr, flush=True)


def run(cmd, timeout=1800, cwd=None, env=None, check=False, input=None, quiet=True):
    """run a command, return (rc, stdout, stderr)"""
    e = dict(os.environ)
    e["CARGO_NET_OFFLINE"] = "true"
    if env:
        e.update(env)
    t0 = time.time()
    try:
        p = subprocess.run(cmd, cwd=cwd, env=e, input=input, capture_output=True, text=True,
                           timeout=timeout, shell=isinstance(cmd, str))
        rc, out, err = p.returncode, p.stdout, p.stderr
    except subprocess.TimeoutExpired as ex:
        rc, out, err = 124, (ex.stdout or b"").decode("utf8", "replace") if isinstance(ex.stdout, bytes) else (ex.stdout or ""), "TIMEOUT after %ss" % timeout
    if not quiet or rc != 0 and check:
        log("$ %s  (rc=%s, %.1fs)" % (cmd if isinstance(cmd, str) else " ".join(cmd), rc, time.time() - t0))
    if check and rc != 0:
        log(out[-4000:])
        log(err[-4000:])
        raise RuntimeError("command failed: %s" % (cmd,))
    return rc, out, err


def sha(*parts):
    h = hashlib.sha256()
    for p in parts:
        if isinstance(p, str):
            p = p.encode()
        h.update(p)
        h.update(b"\0")
    return h.hexdigest()


def hash_files(paths):
    h = hashlib.sha256()
    for p in sorted(paths):
        h.update(p.encode())
        try:
            with open(p, "rb") as f:
                h.update(f.read())
        except OSError:
            h.update(b"<missing>")
    return h.hexdigest()


def tree_files(root, exts=None, skip=("target", ".git", ".cache")):
    out = []
    for d, dirs, files in os.walk(root):
        dirs[:] = [x for x in dirs if x not in skip]
        for f in files:
            if exts is None or os.path.splitext(f)[1] in exts:
                out.append(os.path.join(d, f))
    return out


class Rng:
    """xorshift64*: every random choice of a run derives from VERIF_SEED through this."""

    def __init__(self, seed):
        self.s = (seed * 0x9E3779B97F4A7C15 + 0x1234567) & 0xFFFFFFFFFFFFFFFF or 1

    def next(self):
        x = self.s
        x ^= (x >> 12)
        x ^= (x << 25) & 0xFFFFFFFFFFFFFFFF
        x ^= (x >> 27)
        self.s = x
        return (x * 0x2545F4914F6CDD1D) & 0xFFFFFFFFFFFFFFFF

    def below(self, n):
        return self.next() % n

    def choice(self, xs):
        return xs[self.below(len(xs))]

    def chance(self, num, den):
        return self.below(den) < num

    def fork(self, tag):
        return Rng(int(sha(str(self.s), tag)[:15], 16))


class Ctx:
    """state of one property check"""

    def __init__(self, pid, tier, seed):
        self.pid = pid
        self.tier = tier
        self.seed = seed
        self.t0 = time.time()
        self.violations = []      # (what, replay_path, found_input)
        self.known = []           # strings
        self.obligations = []     # (name, ok, detail)
        self.coverage = {}
        self.assumptions = []
        self.samples = []
        self.evaluations = 0
        self.nontrivial = set()
        self.rule = ""
        self.hist = {}

    def oblige(self, name, ok, detail=""):
        self.obligations.append((name, bool(ok), detail))
        if not ok:
            log("OBLIGATION FAILED: %s %s" % (name, detail[:2000]))

    def count(self, key, n=1):
        self.hist[key] = self.hist.get(key, 0) + n

    def violation(self, what, replay, found_input=True):
        """replay: dict written to replays/<pid>-<hash>.json"""
        replay = dict(replay)
        replay["property"] = self.pid
        replay["what"] = what
        replay["seed"] = self.seed
        replay["tier"] = self.tier
        name = "%s-%s.json" % (self.pid, sha(json.dumps(replay, sort_keys=True))[:12])
        path = os.path.join(REPLAYS, name)
        with open(path, "w") as f:
            json.dump(replay, f, indent=1, sort_keys=True)
        self.violations.append((what, path, found_input))

    def finish(self, level="proof", checker_cmd="", trusted_base=None, explanation=""):
        nobl = len(self.obligations)
        ndis = sum(1 for _, ok, _ in self.obligations if ok)
        cov = dict(self.coverage)
        cov.update({
            "obligations": nobl,
            "discharged": ndis,
            "obligation_list": [{"name": n, "ok": ok, "detail": d[:300]} for n, ok, d in self.obligations],
            "checker_cmd": checker_cmd or "make -C coq (coqc 8.16.1), see vlib/coqbuild.py",
            "trusted_base": trusted_base or [],
            "evaluations": self.evaluations,
            "distinct_nontrivial": len(self.nontrivial),
            "rule": self.rule,
            "samples": self.samples[:12] if self.samples else ["(none)"],
            "input_distribution": self.hist,
        })
        if explanation:
            cov["explanation"] = explanation
        ev = {
            "property_id": self.pid,
            "tier": self.tier,
            "seed": self.seed,
            "level": level,
            "coverage": cov,
            "assumptions": self.assumptions,
            "wall_s": round(time.time() - self.t0, 2),
            "violations": len(self.violations),
            "known_findings": self.known,
        }
        with open(os.path.join(EVID, "%s.json" % self.pid), "w") as f:
            json.dump(ev, f, indent=1, sort_keys=True)
        for k in self.known:
            print("KNOWN-FINDING: property=%s %s" % (self.pid, k))
        for what, path, found in self.violations:
            rel = os.path.relpath(path, VERIF)
            print("VIOLATION property=%s replay=%s %s%s" % (
                self.pid, rel, what.replace("\n", " ")[:300], "" if found else " no-failing-input-found"))
        sys.stdout.flush()
        return 1 if self.violations else 0


def load_known_findings():
    p = os.path.join(VERIF, "KNOWN_FINDINGS.json")
    if not os.path.exists(p):
        return []
    with open(p) as f:
        return json.load(f)["findings"]
