"""Coq side of a check: regenerate Gen/*.v from /repo (T1), build with make, gate, Print Assumptions."""
import os
import re

from .common import COQ, REPO, VERIF, CACHE, run, log, NCPU

GEN = os.path.join(COQ, "theories", "Gen")

SPAN_PREAMBLE = ("From Coq Require Import List NArith.\\nFrom PT Require Import Model.Base Model.SpanOps.\\n"
                 "(* the struct Span { input, start, end } and its checked constructor (hand-written model: Model/SpanOps.v) *)\\n"
                 "Record Span := mk_Span { sp_input : list byte; sp_start : Z; sp_end : Z }.\\n"
                 "Definition span_new_z (s : list byte) (a b : Z) : option Span :=\\n"
                 "  match span_new s (Z.to_nat a) (Z.to_nat b) with Some (x, y) => Some (mk_Span s (Z.of_nat x) (Z.of_nat y)) | None => None end.")

# (rust source relative to /repo, output, rs2v args)
RS2V_JOBS = [
    ("main/src/parser_state.rs", "SliceGen.v", ["--fn", "normalize_index", "--fn", "constrain_idxs"]),
    ("main/src/span.rs", "SpanGen.v", ["--fn", "merge_spans", "--proj", "start=sp_start:usize", "--proj", "end=sp_end:usize",
                                       "--proj", "get_input=sp_input:Inp", "--opaque", "new=span_new_z:option-Span",
                                       "--preamble", SPAN_PREAMBLE]),
]

FORBIDDEN = re.compile(r"\b(Admitted|admit|Axiom|Axioms|Parameter|Parameters|Conjecture|Conjectures|Hypothesis|Variable)\b|Unset\s+Guard|bypass_check|type-in-type|impredicative-set|Admit\s+Obligations|native_compute")
ALLOWED_AXIOMS = set()  # names of stdlib axioms a theorem may depend on (none so far)


def regenerate(ctx=None):
    """T1: re-translate the arithmetic kernel from the working tree. Returns list of (job, ok, msg)."""
    os.makedirs(GEN, exist_ok=True)
    res = []
    for src, out, args in RS2V_JOBS:
        outp = os.path.join(GEN, out)
        tmp = outp + ".new"
        rc, so, se = run(["python3", os.path.join(VERIF, "tools", "rs2v.py"), os.path.join(REPO, src), tmp] + args)
        if rc != 0:
            res.append((out, False, se.strip()))
            continue
        new = open(tmp).read()
        old = open(outp).read() if os.path.exists(outp) else None
        if new != old:
            os.replace(tmp, outp)   # only touch when changed so make stays incremental
        else:
            os.remove(tmp)
        res.append((out, True, ""))
    return res


PROJECT_HEADER = "-Q theories PT\n-arg -w -arg -notation-overridden,-deprecated-hint-without-locality\n"


def ensure_makefile():
    """_CoqProject lists every .v under theories/ (dependency order comes from coqdep)."""
    files = []
    for d, _, fs in os.walk(os.path.join(COQ, "theories")):
        for f in fs:
            if f.endswith(".v"):
                files.append(os.path.relpath(os.path.join(d, f), COQ))
    txt = PROJECT_HEADER + "\n".join(sorted(files)) + "\n"
    proj = os.path.join(COQ, "_CoqProject")
    mk = os.path.join(COQ, "Makefile")
    if not os.path.exists(proj) or open(proj).read() != txt or not os.path.exists(mk):
        with open(proj, "w") as f:
            f.write(txt)
        run(["coq_makefile", "-f", "_CoqProject", "-o", "Makefile"], cwd=COQ, check=True)


def make(targets=None, timeout=3000):
    """full .vo build of the given targets (relative to coq/), returns (ok, log)"""
    ensure_makefile()
    cmd = ["timeout", str(timeout), "make", "-j%d" % NCPU] + (targets or [])
    rc, so, se = run(cmd, cwd=COQ, timeout=timeout + 30)
    return rc == 0, (so + se)


def gate_sources():
    """no Admitted/Axiom/... anywhere in the development (Section Variables are allowed only inside a Section:
    checked by requiring 'Closed under the global context' from Print Assumptions as well)"""
    bad = []
    for d, _, files in os.walk(os.path.join(COQ, "theories")):
        for f in files:
            if not f.endswith(".v"):
                continue
            p = os.path.join(d, f)
            txt = open(p).read()
            txt_nc = strip_comments(txt)
            for m in FORBIDDEN.finditer(txt_nc):
                word = m.group(0)
                if word in ("Variable", "Hypothesis") and in_section(txt_nc, m.start()):
                    continue
                bad.append("%s: %s" % (os.path.relpath(p, COQ), word))
    return bad


def strip_comments(txt):
    out, depth, i = [], 0, 0
    while i < len(txt):
        if txt.startswith("(*", i):
            depth += 1
            i += 2
        elif txt.startswith("*)", i) and depth > 0:
            depth -= 1
            i += 2
        else:
            if depth == 0:
                out.append(txt[i])
            i += 1
    return "".join(out)


def in_section(txt, pos):
    opened = len(re.findall(r"^\s*Section\s+\w+\s*\.", txt[:pos], re.M))
    closed = len(re.findall(r"^\s*End\s+\w+\s*\.", txt[:pos], re.M))
    mods = len(re.findall(r"^\s*Module\s+(Type\s+)?\w+[^.]*\.", txt[:pos], re.M))
    return opened - (closed - mods) > 0


def property_file_ok(pid):
    """Properties/Cxx.v may contain only Require/Theorem/Proof. exact ... Qed./Check/Print Assumptions/comments"""
    p = os.path.join(COQ, "theories", "Properties", "%s.v" % pid)
    txt = strip_comments(open(p).read())
    sentences = [s.strip() for s in re.split(r"\.\s", txt + " ") if s.strip()]
    bad = []
    for s in sentences:
        if re.match(r"^(From|Require|Import|Local Open Scope|Local Close Scope|Open Scope|Close Scope|Theorem|Proof|exact|Qed|Check|Print Assumptions|Set Printing|Unset Printing)\b", s):
            continue
        bad.append(s[:80])
    return bad


def print_assumptions(pid):
    """compile Properties/<pid>.v once more with coqc (deps are built) and parse Print Assumptions output.
    returns dict theorem -> 'closed' | [axioms]"""
    src = os.path.join("theories", "Properties", "%s.v" % pid)
    os.makedirs(os.path.join(CACHE, "pa"), exist_ok=True)
    outvo = os.path.join(CACHE, "pa", "%s.vo" % pid)
    rc, so, se = run(["timeout", "600", "coqc", "-Q", "theories", "PT", "-w", "-notation-overridden,-deprecated-hint-without-locality", "-o", outvo, src], cwd=COQ, timeout=630)
    if rc != 0:
        return None, so + se
    txt = strip_comments(open(os.path.join(COQ, src)).read())
    names = [n.rstrip(".") for n in re.findall(r"Print Assumptions\s+([\w.']+)", txt)]
    # split output by blocks: each Print Assumptions prints either "Closed under the global context" or "Axioms:\n..."
    blocks = re.split(r"(?=Closed under the global context|Axioms:)", so)
    blocks = [b for b in blocks if b.startswith("Closed under") or b.startswith("Axioms:")]
    res = {}
    for i, n in enumerate(names):
        if i >= len(blocks):
            res[n] = ["<no output>"]
        elif blocks[i].startswith("Closed under"):
            res[n] = "closed"
        else:
            axs = re.findall(r"^([\w.']+)\s*:", blocks[i][len("Axioms:"):], re.M)
            res[n] = axs or ["<unparsed>"]
    return res, so


def check_property_proofs(ctx, pid, extra_targets=()):
    """standard proof pipeline for a property; records obligations in ctx; returns True if all good"""
    ok_all = True
    for out, ok, msg in regenerate():
        ctx.oblige("T1 rs2v regenerate %s" % out, ok, msg)
        ok_all &= ok
    target = "theories/Properties/%s.vo" % pid
    ok, mlog = make([target] + list(extra_targets))
    ctx.oblige("coq make %s" % target, ok, mlog[-3000:] if not ok else "")
    ok_all &= ok
    bad = gate_sources()
    ctx.oblige("gate: no Admitted/Axiom/Parameter/guard switches in coq/theories", not bad, "; ".join(bad))
    ok_all &= not bad
    badp = property_file_ok(pid)
    ctx.oblige("gate: Properties/%s.v holds only statements closed by exact" % pid, not badp, "; ".join(badp))
    ok_all &= not badp
    if ok:
        res, raw = print_assumptions(pid)
        if res is None:
            ctx.oblige("Print Assumptions %s" % pid, False, raw[-2000:])
            ok_all = False
        else:
            if not res:
                ctx.oblige("Print Assumptions present in Properties/%s.v" % pid, False, "none found")
                ok_all = False
            for thm, r in sorted(res.items()):
                good = r == "closed" or all(a in ALLOWED_AXIOMS for a in r)
                ctx.oblige("theorem %s: %s" % (thm, "Closed under the global context" if r == "closed" else "axioms " + ",".join(r)), good)
                ok_all &= good
    if ok and ctx.tier == "thorough":
        # independent re-check of the compiled property file and everything it depends on
        rc, so, se = run(["timeout", "1800", "coqchk", "-o", "-silent", "-Q", "theories", "PT", "PT.Properties.%s" % pid], cwd=COQ, timeout=1830)
        txt = so + se
        def section(name):
            m = re.search(r"\* %s:(.*?)(?=\n\* |\Z)" % re.escape(name), txt, re.S)
            return (m.group(1).strip() if m else "<missing>")
        good = rc == 0 and all(section(n) == "<none>" for n in (
            "Axioms", "Constants/Inductives relying on type-in-type", "Constants/Inductives relying on unsafe (co)fixpoints",
            "Inductives whose positivity is assumed"))
        ctx.oblige("coqchk -o PT.Properties.%s: axioms <none>, no type-in-type, no unsafe fixpoints, no assumed positivity" % pid,
                   good, txt[-1500:] if not good else "")
        ok_all &= good
    return ok_all
