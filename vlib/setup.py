"""./vcheck setup : build the Coq development and whatever harnesses exist, from files on disk."""
import os
from .common import log, VERIF
from . import coqbuild


def main():
    res = coqbuild.regenerate()
    for out, ok, msg in res:
        if not ok:
            log("rs2v failed for %s: %s" % (out, msg))
    coqbuild.ensure_makefile()
    from .common import run, COQ, NCPU
    rc, so, se = run(["timeout", "3000", "make", "-k", "-j%d" % NCPU], cwd=COQ, timeout=3100)
    if rc != 0:
        # every check rebuilds the target it needs; a file that does not build only breaks the checks depending on it
        log((so + se)[-3000:])
        log("coq build: some files failed (see above)")
    try:
        from . import harness_setup
        return harness_setup.main()
    except ImportError:
        return 0
