"""./vcheck setup : build the Coq development and whatever harnesses exist, from files on disk."""
import os
from .common import log, VERIF
from . import coqbuild


def main():
    res = coqbuild.regenerate()
    for out, ok, msg in res:
        if not ok:
            log("rs2v failed for %s: %s" % (out, msg))
    ok, mlog = coqbuild.make()
    if not ok:
        log(mlog[-5000:])
        log("coq build failed")
        return 1
    try:
        from . import harness_setup
        return harness_setup.main()
    except ImportError:
        return 0
